import sys; sys.path.append("/var/tmp/scratch/depst")
from common import *
import icontract, hashlib
import sedpack.io.utils as U
import sedpack.io.dataset_filler as DF
import sedpack.io.merge_shard_infos as M
import sedpack.io.dataset_writing as DW
class Broken(Exception): pass
stats={"hash":0,"write":0,"merge":0}
def digests_ok(file_path, hashes, result):
    stats["hash"]+=1
    data=open(file_path,"rb").read()
    import xxhash
    exp=tuple((getattr(xxhash,h)(data).hexdigest() if h.startswith("xxh") else hashlib.new(h,data).hexdigest()) for h in hashes)
    return result==exp
U.hash_checksums=icontract.ensure(digests_ok, error=Broken)(U.hash_checksums)
def shard_nonempty_bounded(self, split):
    stats["write"]+=1
    p=self._current_shards_progress[split]
    return 1<=p.written_examples<=self._examples_per_shard and p.shard.shard_info.number_of_examples==p.written_examples
DF._DatasetFillerContext.write_example=icontract.ensure(shard_nonempty_bounded, error=Broken)(DF._DatasetFillerContext.write_example)
def totals_ok(result, dataset_root):
    stats["merge"]+=1
    import json
    def walk(info):
        d=json.loads((dataset_root/info["shard_list_info_file"]["file_path"]).read_text())
        n=sum(s.get("number_of_examples",0) for s in d.get("shard_files",[])); k=len(d.get("shard_files",[]))
        for c in d.get("children_shard_lists",[]):
            cn,ck=walk(c); n+=cn; k+=ck
            if cn!=c.get("number_of_examples",0) or ck!=c.get("number_of_shards",0): raise Broken("child summary")
        if n!=d.get("number_of_examples",0): raise Broken("list total")
        return n,k
    n,k=walk(json.loads(result.model_dump_json()))
    return n==result.number_of_examples and k==result.number_of_shards
wrapped=icontract.ensure(totals_ok, error=Broken)(M.merge_shard_infos)
M.merge_shard_infos=wrapped; DW.merge_shard_infos=wrapped
tmp = tempfile.mkdtemp(dir="/var/tmp/scratch")
try:
    from sedpack.io import DatasetFiller
    ds=mk(tmp,"fb","LZ4",eps=2,hashes=("sha256","xxh64"))
    with ds.filler() as f:
        for i in range(5): f.write_example({"a":i},split="train")
    with DatasetFiller(ds,relative_path_from_split=Path("q/r")) as f:
        for i in range(5,8): f.write_example({"a":i},split="train",custom_metadata={"x":1})
    ds.check(show_progressbar=False)
    print(vals(ds), stats)
finally: shutil.rmtree(tmp)
