from common import *
import threading, time, errno, json, multiprocessing
tmp = tempfile.mkdtemp(dir="/var/tmp/scratch")
def feeder2(shards, content, seed, outpath):
    rng=np.random.default_rng(seed); order=[]
    pending=set(shards); fds={}
    def scan():
        for p in sorted(pending):
            if p in fds: continue
            try: fds[p]=os.open(p, os.O_WRONLY|os.O_NONBLOCK)
            except OSError as e:
                if e.errno!=errno.ENXIO: raise
    while pending:
        scan()
        if not fds: time.sleep(0.002); continue
        time.sleep(0.03); scan()
        ready=sorted(fds)
        p=ready[rng.integers(len(ready))]
        fd=fds.pop(p); os.set_blocking(fd, True); os.write(fd, content[p]); os.close(fd); pending.discard(p)
        order.append((shards.index(p), [shards.index(q) for q in ready]))
        Path(outpath).write_text(json.dumps(order))
try:
    ds = mk(tmp, "fb", "LZ4", eps=2)
    with ds.filler() as f:
        for i in range(12): f.write_example({"a": i}, split="train")
    shards = [ds.path / s.file_infos[0].file_path for s in ds.shard_info_iterator("train")]
    content = {}
    for p in shards:
        content[p]=p.read_bytes(); p.unlink(); os.mkfifo(p)
    pid=os.fork()
    if pid==0:
        feeder2(shards, content, int(sys.argv[1]), tmp+"/order.json"); os._exit(0)
    T=int(sys.argv[2]); which=sys.argv[3]
    if which=="rust":
        out=[int(e["a"]) for e in ds.as_numpy_iterator_rust(split="train",shuffle=0,repeat=False,file_parallelism=T)]
    elif which=="conc":
        out=[int(e["a"]) for e in ds.as_numpy_iterator_concurrent(split="train",shuffle=0,repeat=False,file_parallelism=T)]
    elif which=="concshuf":
        out=[int(e["a"]) for e in ds.as_numpy_iterator_concurrent(split="train",shuffle=5,repeat=False,file_parallelism=T)]
    os.waitpid(pid,0)
    print("out", out)
    print("release order (shard, ready set):", Path(tmp+"/order.json").read_text())
finally:
    shutil.rmtree(tmp)
