# fork-server crash injection prototype: parent imports sedpack once, forks a child per crash point,
# attaches strace with inject=...:signal=SIGKILL:when=K, then lets the child run the session.
from common import *
import subprocess, time, signal, json
SYSCALLS="openat,open,creat,rename,renameat,renameat2,mkdir,mkdirat,unlink,unlinkat,write,pwrite64,writev,close,ftruncate,fsync,fdatasync,link,linkat"
def session(root, fmt, comp, base):
    root=Path(root)
    if not (root/"dataset_info.json").exists():
        ds = Dataset.create(root, Metadata(description="x"), DatasetStructure(saved_data_description=[Attribute(name="a", dtype="int64", shape=())], compression=comp, examples_per_shard=2, shard_file_type=fmt))
    else: ds = Dataset(root)
    with ds.filler() as f:
        for i in range(5): f.write_example({"a": base+i}, split="train")
        f.write_example({"a": -1-base}, split="test")
def run_with_crash(root, fmt, comp, base, K, log):
    r,w=os.pipe()
    pid=os.fork()
    if pid==0:
        os.close(w); os.read(r,1)   # wait for GO
        try: session(root, fmt, comp, base)
        finally: os._exit(0)
    os.close(r)
    inj = [] if K is None else ["-e", f"inject={SYSCALLS}:signal=SIGKILL:when={K}"]
    st=subprocess.Popen(["strace","-f","-y","-qq","-e",f"trace={SYSCALLS}","-o",log,"-p",str(pid)]+inj, stderr=subprocess.PIPE)
    # wait until attached: strace writes nothing with -qq; poll /proc/pid/status TracerPid
    for _ in range(2000):
        s=open(f"/proc/{pid}/status").read()
        if "TracerPid:\t0" not in s: break
        time.sleep(0.001)
    os.write(w,b"g"); os.close(w)
    _,status=os.waitpid(pid,0)
    st.wait(timeout=20)
    return status
tmp = tempfile.mkdtemp(dir="/var/tmp/scratch")
try:
    fmt,comp=sys.argv[1],sys.argv[2]
    root=tmp+"/ds"
    t=time.time()
    status=run_with_crash(root,fmt,comp,0,None,tmp+"/ref.log")
    lines=[l for l in open(tmp+"/ref.log") if "+++" not in l and "---" not in l]
    print("ref session status",status,"syscalls",len(lines),"t=%.2f"%(time.time()-t))
    N=len(lines)
    # second session crash points sample
    res=[]
    for K in [1,2,3,5,8,13,21,34,55,N-1,N,N+5]:
        shutil.rmtree(tmp+"/c", ignore_errors=True); shutil.copytree(root,tmp+"/c")
        t=time.time()
        status=run_with_crash(tmp+"/c",fmt,comp,100,K,tmp+"/k.log")
        last=[l for l in open(tmp+"/k.log") if "= ?" in l or "killed" in l]
        try:
            d=Dataset(tmp+"/c"); got=sorted(vals(d)); ok=set(range(5))<=set(got)
        except Exception as e: got=repr(e)[:80]; ok=False
        res.append((K,os.WIFSIGNALED(status),got,ok,"%.2f"%(time.time()-t), last[0].strip()[:110] if last else None))
    for r in res: print(r)
finally:
    shutil.rmtree(tmp)
