import os, itertools, warnings, time
os.environ["TF_CPP_MIN_LOG_LEVEL"]="3"; warnings.filterwarnings("ignore")
from sedpack.io.itertools import shuffle_buffer, round_robin, LazyPool
class C:
    def __init__(s,it): s.it=iter(it); s.n=0
    def __iter__(s): return s
    def __next__(s): v=next(s.it); s.n+=1; return v
def ahead(gen, src, k):
    mx=0
    for i,_ in enumerate(gen):
        mx=max(mx, src.n-(i+1))
        if i+1>=k: break
    return mx
for b in [1,2,5,17]:
    r=[]
    for n in [100,1000,None]:
        src=C(itertools.count() if n is None else range(n)); r.append(ahead(shuffle_buffer(src,b),src,50))
    print("shuffle_buffer b",b,"ahead",r)
for b in [1,2,5]:
    r=[]
    for n in [100,1000,None]:
        src=C((iter(range(3)) for _ in (itertools.count() if n is None else range(n))))
        g=round_robin(src,b); mx=0
        for i,_ in enumerate(g):
            mx=max(mx, src.n-(i//3+1))
            if i>=60: break
        r.append(mx)
    print("round_robin b",b,"inner iterators opened ahead",r)
for T in [1,2,4]:
    r=[]
    for n in [100,1000,None]:
        src=C(itertools.count() if n is None else range(n))
        with LazyPool(T) as p:
            g=p.imap_unordered(lambda x:x, src); mx=0
            for i,_ in enumerate(g):
                time.sleep(0.001)
                mx=max(mx, src.n-(i+1))
                if i>=40: break
        r.append(mx)
    print("LazyPool T",T,"pulled ahead",r, "2T+2=",2*T+2)
