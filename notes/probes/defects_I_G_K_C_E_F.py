from common import *
tmp = tempfile.mkdtemp(dir="/var/tmp/scratch")
def sect(s): print("\n=====", s, flush=True)
try:
    sect("I: reuse subdirectory")
    ds = mk(tmp)
    from sedpack.io import DatasetFiller
    with DatasetFiller(ds, relative_path_from_split=Path("a")) as f:
        for i in range(4): f.write_example({"a": i}, split="train")
    print(vals(ds))
    try:
        with DatasetFiller(ds, relative_path_from_split=Path("a")) as f:
            for i in range(4,9): f.write_example({"a": i}, split="train")
        print("second session ok", vals(ds), ds._dataset_info.splits["train"])
    except BaseException as e:
        print("EXC", type(e).__name__, e); 
        print("after failure:", vals(Dataset(ds.path)))
        try: Dataset(ds.path).check(show_progressbar=False); print("check ok")
        except Exception as e2: print("check fails:", str(e2)[:100])
    sect("I2: nested a/b then a")
    ds = mk(tmp)
    with DatasetFiller(ds, relative_path_from_split=Path("a/b")) as f:
        for i in range(4): f.write_example({"a": i}, split="train")
    print(vals(ds), ds._dataset_info.splits)
    try:
        with DatasetFiller(ds, relative_path_from_split=Path("c")) as f:
            for i in range(4,9): f.write_example({"a": i}, split="train")
        print("c ok", vals(ds), ds._dataset_info.splits["train"])
        with ds.filler() as f:
            for i in range(9,11): f.write_example({"a": i}, split="train")
        print("root ok", vals(ds), ds._dataset_info.splits["train"])
        ds.check(show_progressbar=False)
        with DatasetFiller(ds, relative_path_from_split=Path("a")) as f:
            for i in range(11,13): f.write_example({"a": i}, split="train")
        print("a ok", vals(ds), ds._dataset_info.splits["train"])
    except BaseException as e:
        print("EXC", type(e).__name__, e); traceback.print_exc(limit=3)

    sect("G: metadata aliasing")
    ds = mk(tmp, eps=10)
    md = {"k": 1}
    with ds.filler() as f:
        f.write_example({"a": 1}, split="train", custom_metadata=md)
        md["k"] = 2
        f.write_example({"a": 2}, split="train", custom_metadata=md)
    for s in ds.shard_info_iterator("train"): print(s.number_of_examples, s.custom_metadata)

    sect("K: absolute paths")
    from sedpack.io.file_info import FileInfo
    try: print(FileInfo(file_path="/etc/passwd"))
    except Exception as e: print("rejected", e)
    try:
        ds = mk(tmp)
        outside = Path(tmp)/"outside_dir"
        with DatasetFiller(ds, relative_path_from_split=outside) as f:
            f.write_example({"a": 1}, split="train")
        print("wrote outside:", list(outside.rglob("*")))
    except BaseException as e: print("EXC", type(e).__name__, str(e)[:200])

    sect("C: tfdataset custom_metadata_type_limit on fb")
    ds = mk(tmp, eps=2)
    with ds.filler() as f:
        for i in range(8): f.write_example({"a": i}, split="train", custom_metadata={"g": i//4})
    print([ (s.number_of_examples, s.custom_metadata) for s in ds.shard_info_iterator("train")])
    print("numpy limit1:", vals(ds, custom_metadata_type_limit=1))
    print("tfds limit1:", [int(e["a"]) for e in ds.as_tfdataset("train", shuffle=0, repeat=False, batch_size=0, custom_metadata_type_limit=1)])

    sect("E: tfrec float64")
    ds = mk(tmp, fmt="tfrec", comp="", attrs=[Attribute(name="a", dtype="float64", shape=(2,))])
    with ds.filler() as f: f.write_example({"a": np.array([1.0, 1e-300])}, split="train")
    try: print(list(ds.as_numpy_iterator(split="train", shuffle=0, repeat=False)))
    except Exception as e: print("read EXC", type(e).__name__, str(e)[:150].replace("\n"," "))

    sect("F: npz partial append")
    ds = mk(tmp, fmt="npz", comp="", attrs=[Attribute(name="a", dtype="int64", shape=()), Attribute(name="b", dtype="bytes", shape=())], eps=10)
    try:
        with ds.filler() as f:
            f.write_example({"a": 1, "b": b"x"}, split="train")
            try: f.write_example({"a": 2}, split="train")
            except Exception as e: print("write2 EXC", type(e).__name__, e)
            else: print("write2 accepted (missing b)")
            try: f.write_example({"a": 3, "zz": 1, "b": b"y"}, split="train")
            except Exception as e: print("write3 EXC", type(e).__name__, e)
            else: print("write3 accepted (extra zz)")
            f.write_example({"a": 4, "b": b"z"}, split="train")
        print([ (s.number_of_examples) for s in ds.shard_info_iterator("train")])
        print(list(ds.as_numpy_iterator(split="train", shuffle=0, repeat=False)))
    except BaseException as e: print("EXC", type(e).__name__, str(e)[:200])
finally:
    shutil.rmtree(tmp)
