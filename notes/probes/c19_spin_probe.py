"""Probe for DESIGN §4 observation (iv): does a repeating Rust stream ever start epochs that deliver nothing
(which would make `while self._repeat: yield from self._single_iter()` spin)?  Two threads, each consuming its own
repeating stream across epoch boundaries, as in C19's two-thread workload; an epoch without a single example is
counted and reported.  usage: c19_spin_probe.py <seconds> <seed>"""
import itertools, os, random, sys, threading, time
sys.path.insert(0, "/verif")
from rtmon import common
common.ensure_deps()
from rtmon import rustbuild
rustbuild.load_built_extension()
from sedpack.io import Dataset, dataset_iteration as di
from rtmon import ds as dsmod, readers

budget, seed = float(sys.argv[1]), int(sys.argv[2])
rng = random.Random(seed)
work = common.new_workdir("c19probe")
empty = {"epochs": 0, "streams": 0}
original = di.RustGenerator._single_iter

def guarded(self):
    produced = False
    for example in original(self):
        produced = True
        yield example
    if not produced:
        empty["epochs"] += 1
        if empty["epochs"] > 50:
            raise RuntimeError("spinning: more than 50 empty epochs")

di.RustGenerator._single_iter = guarded
try:
    root = work / "ds"
    dataset = dsmod.create(root, "fb", rng.choice(["", "LZ4"]), 2)
    n = rng.randint(3, 12)
    dsmod.write_simple(dataset, {"train": [dsmod.make_id("train", 0, 0, j) for j in range(n)],
                                 "test": [dsmod.make_id("test", 0, 0, j) for j in range(rng.randint(1, 5))]})
    ref = {s: dsmod.ids_of(readers.read(Dataset(root), "sync", s, shuffle=0, repeat=False))[0] for s in ("train", "test")}
    bad = []
    def consume(split, epochs):
        try:
            got, _ = dsmod.ids_of(readers.read(Dataset(root), "rust", split, shuffle=0, repeat=True,
                                               limit=epochs * len(ref[split]) + 1, file_parallelism=2))
            if got != list(itertools.islice(itertools.cycle(ref[split]), len(got))):
                bad.append(f"{split}: deviates")
        except BaseException as exc:
            bad.append(f"{split}: {type(exc).__name__}: {exc}")
    end = time.monotonic() + budget
    rounds = 0
    while time.monotonic() < end and not bad:
        threads = [threading.Thread(target=consume, args=(rng.choice(["train", "test"]), 3 + k)) for k in range(2)]
        for t in threads: t.start()
        for t in threads: t.join()
        rounds += 1
    print(f"seed={seed} rounds={rounds} empty_epochs={empty['epochs']} problems={bad[:2]}")
finally:
    common.rm(work)
    os._exit(0)
