"""Prototype: controlled scheduler for LazyPool (queue-op granularity)."""
import os, sys, threading, random, types, collections, itertools
os.environ["TF_CPP_MIN_LOG_LEVEL"]="3"
import sedpack.io.itertools.lazy_pool as lp

class Deadlock(Exception): pass
class Abort(BaseException): pass

class Sched:
    def __init__(self, seed):
        self.rng=random.Random(seed); self.threads={}  # tid -> dict(state, sem, blocked_on)
        self.trace=[]; self.cur=None; self.dead=None; self.lock=threading.Lock(); self.nid=0
    def register(self, name):
        tid=self.nid; self.nid+=1
        self.threads[tid]=dict(name=name,state="R",sem=threading.Semaphore(0),on=None)
        return tid
    def enabled(self): return [t for t,d in self.threads.items() if d["state"]=="R"]
    def switch(self, me):
        """called by running thread `me` (may be blocked/finished now); pick next and wait own turn"""
        en=self.enabled()
        if not en:
            if all(d["state"]=="F" for d in self.threads.values()): return
            # nobody can run
            self.dead=[(d["name"],d["state"],d["on"]) for d in self.threads.values()]
            for t,d in self.threads.items():
                if d["state"]!="F": d["sem"].release()
            if self.threads[me]["state"]!="F": self.threads[me]["sem"].acquire()
            raise Abort()
        nxt=self.rng.choice(en); self.trace.append(nxt); self.cur=nxt
        if nxt!=me:
            self.threads[nxt]["sem"].release()
            if self.threads[me]["state"]!="F":
                self.threads[me]["sem"].acquire()
                if self.dead: raise Abort()
    def yield_point(self, me): self.switch(me)

TL=threading.local()
S=None
class CQueue:
    def __class_getitem__(cls, item): return cls
    def __init__(self, maxsize=0): self.d=collections.deque(); self.id=id(self)
    def put(self, item, block=True, timeout=None):
        me=TL.tid; self.d.append(item)
        for t,dd in S.threads.items():
            if dd["state"]=="B" and dd["on"] is self: dd["state"]="R"; dd["on"]=None
        S.yield_point(me)
    def get(self, block=True, timeout=None):
        me=TL.tid
        S.yield_point(me)
        while not self.d:
            S.threads[me]["state"]="B"; S.threads[me]["on"]=self
            S.switch(me)
        return self.d.popleft()
shimq=types.SimpleNamespace(Queue=CQueue, Empty=Exception)
shimt=types.SimpleNamespace(sleep=lambda x: S.yield_point(TL.tid))
lp.queue=shimq; lp.time=shimt
_orig_start=lp.Collector.start; _orig_run=lp.Collector.run
def start(self):
    self._vtid=S.register("w"); _orig_start(self)
def run(self):
    TL.tid=self._vtid
    S.threads[self._vtid]["sem"].acquire()
    try:
        if S.dead: return
        _orig_run(self)
    except Abort: pass
    except Exception as e: S.threads[self._vtid]["exc"]=e
    finally:
        S.threads[self._vtid]["state"]="F"
        if not S.dead:
            try: S.switch(self._vtid)
            except Abort: pass
lp.Collector.start=start; lp.Collector.run=run

def case(seed,T,n,early=None,fail=None):
    global S
    S=Sched(seed); TL.tid=S.register("consumer"); S.cur=TL.tid
    out=[]; verdict="ok"
    def f(x):
        if x==fail: raise RuntimeError("boom")
        return x*2
    try:
        try:
            with lp.LazyPool(T) as pool:
                for i,r in enumerate(pool.imap_unordered(f, range(n))):
                    out.append(r)
                    if early is not None and i+1>=early: break
        except RuntimeError as e: verdict="raised"
        # drain: consumer waits for all workers
        me=TL.tid; S.threads[me]["state"]="B"; S.threads[me]["on"]="join-all"
        while not all(d["state"]=="F" for t,d in S.threads.items() if t!=me):
            S.switch(me)
            S.threads[me]["state"]="B"
    except Abort:
        verdict="DEADLOCK "+str(S.dead)
    return verdict,out,len(S.trace),tuple(S.trace)
if __name__=="__main__":
    import time; t=time.time(); scheds=set(); bad=0; cnt=0
    for seed in range(int(sys.argv[1])):
        rng=random.Random(seed); T=rng.randint(1,4); n=rng.randint(0,2*T+5)
        early=rng.choice([None,None,rng.randint(1,max(1,n))]); fail=rng.choice([None,None,None,rng.randint(0,max(0,n-1))]) if len(sys.argv)>2 else None
        v,out,steps,tr=case(seed,T,n,early,fail); cnt+=1; scheds.add(hash(tr))
        exp=sorted(x*2 for x in range(n))
        okres = (sorted(out)==exp) if (early is None and fail is None) else (len(set(out))==len(out) and set(out)<=set(exp))
        if v.startswith("DEAD") or not okres:
            bad+=1
            if bad<=5: print("seed",seed,"T",T,"n",n,"early",early,"fail",fail,"->",v,out,steps)
    print("cases",cnt,"distinct schedules",len(scheds),"bad",bad,"t=%.1f"%(time.time()-t), "threads alive", threading.active_count())
