from common import *
tmp = tempfile.mkdtemp(dir="/var/tmp/scratch")
try:
  for fmt,comp in [("fb","LZ4"),("npz",""),("tfrec","")]:
    print("=====",fmt)
    attrs=[Attribute(name="a",dtype="int64",shape=()),Attribute(name="v",dtype="float32",shape=(2,))]
    ds=mk(tmp,fmt,comp,attrs=attrs,eps=3)
    good=lambda i: {"a":i,"v":np.array([i,0.5],dtype="float32")}
    with ds.filler() as f:
        f.write_example(good(0),split="train",custom_metadata={"g":1})
        for md,vals_ in [({"g":2},{"a":1,"v":np.zeros(3,dtype="float32")}),({"g":3},good(2)),({"g":3},good(3))]:
            try: f.write_example(vals_,split="train",custom_metadata=md); print("  write a=%s md=%s accepted"%(vals_["a"],md))
            except Exception as e: print("  write a=%s md=%s EXC %s %s"%(vals_["a"],md,type(e).__name__,str(e)[:70]))
    print("  shards:",[(s.number_of_examples,s.custom_metadata) for s in ds.shard_info_iterator("train")])
    try: print("  read:",vals(Dataset(ds.path)))
    except Exception as e: print("  read EXC",type(e).__name__,str(e)[:80])
  print("===== M: tfrec string array for float attr")
  from sedpack.io.tfrec.tfdata import to_tfrecord
  import tensorflow as tf
  attrs=[Attribute(name="v",dtype="float32",shape=(2,))]
  rec=to_tfrecord(attrs,{"v":np.array(["a","b"])})
  print(tf.train.Example.FromString(rec))
  attrs=[Attribute(name="v",dtype="int64",shape=(2,))]
  for v in [np.array(["a","b"]), np.array([1.5,2.5]), np.array([True,False]), np.array([2**63,1],dtype="uint64")]:
      try: print(repr(v), "->", str(tf.train.Example.FromString(to_tfrecord(attrs,{"v":v}))).replace("\n"," ")[:120])
      except Exception as e: print(repr(v),"EXC",type(e).__name__,str(e)[:80])
finally:
    shutil.rmtree(tmp)
