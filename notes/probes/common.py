import os, sys, shutil, tempfile, traceback, warnings
os.environ["TF_CPP_MIN_LOG_LEVEL"]="3"
import numpy as np
from pathlib import Path
from sedpack.io import Dataset, Metadata, DatasetStructure, Attribute
def mk(tmp, fmt="fb", comp="", attrs=None, eps=3, hashes=("sha256",)):
    attrs = attrs or [Attribute(name="a", dtype="int64", shape=())]
    p = Path(tmp)/f"ds_{fmt}_{comp}_{np.random.randint(1<<30)}"
    return Dataset.create(p, Metadata(description="x"), DatasetStructure(saved_data_description=attrs, compression=comp, examples_per_shard=eps, shard_file_type=fmt, hash_checksum_algorithms=hashes))
def vals(ds, split="train", **kw):
    return [int(e["a"]) for e in ds.as_numpy_iterator(split=split, shuffle=0, repeat=False, **kw)]
