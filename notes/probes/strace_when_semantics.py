import os, subprocess, time, sys
def session():
    for i in range(3):
        fd=os.open(f"/var/tmp/scratch/x/injf{i}", os.O_WRONLY|os.O_CREAT, 0o644)
        os.write(fd, b"x"*10); os.write(fd, b"y"*10); os.close(fd)
r,w=os.pipe(); pid=os.fork()
if pid==0:
    os.close(w); os.read(r,1); session(); os._exit(0)
st=subprocess.Popen(["strace","-f","-qq","-e","trace=openat,write,close","-e",f"inject={sys.argv[1]}:signal=SIGKILL:when={sys.argv[2]}","-o","inj.log","-p",str(pid)])
while "TracerPid:\t0" in open(f"/proc/{pid}/status").read(): time.sleep(0.001)
os.write(w,b"g"); os.waitpid(pid,0); st.wait()
print({f: os.path.getsize(f) for f in sorted(os.listdir(".")) if f.startswith("injf")})
for f in os.listdir("."):
    if f.startswith("injf"): os.unlink(f)
