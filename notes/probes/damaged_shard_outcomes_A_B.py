from common import *
import threading, faulthandler, signal
which = sys.argv[1]
tmp = tempfile.mkdtemp(dir="/var/tmp/scratch")
faulthandler.register(signal.SIGUSR1, all_threads=True)
try:
    ds = mk(tmp, "fb", "", eps=2)
    with ds.filler() as f:
        for i in range(12): f.write_example({"a": i}, split="train")
    shards = [ds.path / s.file_infos[0].file_path for s in ds.shard_info_iterator("train")]
    dmg = sys.argv[2]
    if dmg=="del": shards[2].unlink()
    elif dmg=="empty": shards[2].write_bytes(b"")
    elif dmg=="garbage": shards[2].write_bytes(os.urandom(64))
    ds = Dataset(ds.path)
    try:
        if which=="conc_shuf":
            out=[int(e["a"]) for e in ds.as_numpy_iterator_concurrent(split="train",shuffle=5,repeat=False,file_parallelism=2)]
        elif which=="conc":
            out=[int(e["a"]) for e in ds.as_numpy_iterator_concurrent(split="train",shuffle=0,repeat=False,file_parallelism=2)]
        elif which=="sync":
            out=[int(e["a"]) for e in ds.as_numpy_iterator(split="train",shuffle=0,repeat=False)]
        elif which=="rust":
            out=[int(e["a"]) for e in ds.as_numpy_iterator_rust(split="train",shuffle=0,repeat=False,file_parallelism=2)]
        elif which=="tfds":
            out=[int(e["a"]) for e in ds.as_tfdataset("train",shuffle=0,repeat=False,batch_size=0).as_numpy_iterator()]
        elif which=="async":
            import asyncio
            async def a(): return [int(e["a"]) async for e in ds.as_numpy_iterator_async(split="train",shuffle=3,repeat=False,file_parallelism=2)]
            out=asyncio.run(a())
        print("NORMAL END", sorted(out), flush=True)
    except BaseException as e:
        print("RAISED", type(e).__name__, str(e)[:100].replace("\n"," "), flush=True)
finally:
    shutil.rmtree(tmp)
