//! Native harness of the runtime-monitoring framework (see DESIGN.md, C15/C07).
//! The modules below are the *working tree's* sources, included by path.
#![allow(dead_code)]

#[path = "/repo/rust/src/parallel_map.rs"]
pub mod parallel_map;
#[allow(dead_code, unused_imports, clippy::all)]
#[path = "/repo/rust/src/shard_generated.rs"]
mod shard_generated;
#[path = "/repo/rust/src/example_iteration.rs"]
mod example_iteration;

#[cfg(test)]
mod harness {
    use super::parallel_map::parallel_map;
    use std::sync::atomic::{AtomicUsize, Ordering};
    use std::sync::Mutex;

    /// Tests share process-wide observations (thread counts, in-flight counters): run one at a time.
    static SERIAL: Mutex<()> = Mutex::new(());

    fn lock() -> std::sync::MutexGuard<'static, ()> {
        SERIAL.lock().unwrap_or_else(|p| p.into_inner())
    }

    fn threads_now() -> usize {
        std::fs::read_dir("/proc/self/task").map(|d| d.count()).unwrap_or(0)
    }

    /// Later items finish earlier: workers complete out of order.
    fn uneven(x: u64) -> u64 {
        let ms = (x.wrapping_mul(7919) % 5) * 2 + if x % 3 == 0 { 6 } else { 0 };
        std::thread::sleep(std::time::Duration::from_millis(ms));
        x * 3 + 1
    }

    #[test]
    fn harness_out_of_order_completion_keeps_order() {
        let _g = lock();
        for n in [0u64, 1, 2, 3, 5, 8, 13, 21] {
            for threads in [1usize, 2, 3, 4, 7, 12] {
                let got: Vec<u64> = parallel_map(uneven, 0..n, threads).collect();
                let want: Vec<u64> = (0..n).map(|x| x * 3 + 1).collect();
                assert_eq!(got, want, "n={n} threads={threads}");
            }
        }
    }

    static IN_FLIGHT: AtomicUsize = AtomicUsize::new(0);
    static MAX_IN_FLIGHT: AtomicUsize = AtomicUsize::new(0);
    static STARTED: AtomicUsize = AtomicUsize::new(0);

    fn tracked(x: u64) -> u64 {
        let now = IN_FLIGHT.fetch_add(1, Ordering::SeqCst) + 1;
        MAX_IN_FLIGHT.fetch_max(now, Ordering::SeqCst);
        STARTED.fetch_add(1, Ordering::SeqCst);
        std::thread::sleep(std::time::Duration::from_millis(2 + x % 3));
        IN_FLIGHT.fetch_sub(1, Ordering::SeqCst);
        x
    }

    #[test]
    fn harness_in_flight_tasks_bounded_by_threads() {
        let _g = lock();
        for threads in [1usize, 2, 3, 5] {
            for n in [1u64, 4, 9, 40] {
                IN_FLIGHT.store(0, Ordering::SeqCst);
                MAX_IN_FLIGHT.store(0, Ordering::SeqCst);
                STARTED.store(0, Ordering::SeqCst);
                let mut it = parallel_map(tracked, 0..n, threads);
                // a slow consumer: the workers must not run ahead by more than one task each
                let mut taken = 0u64;
                while let Some(_) = it.next() {
                    taken += 1;
                    std::thread::sleep(std::time::Duration::from_millis(1));
                    let started = STARTED.load(Ordering::SeqCst) as u64;
                    assert!(started <= taken + 2 * threads as u64,
                        "read-ahead: {started} tasks started after {taken} results (threads={threads})");
                }
                assert_eq!(taken, n);
                assert!(MAX_IN_FLIGHT.load(Ordering::SeqCst) <= threads,
                    "in flight {} > threads {threads}", MAX_IN_FLIGHT.load(Ordering::SeqCst));
            }
        }
    }

    static STALL_STARTED: AtomicUsize = AtomicUsize::new(0);

    fn stalls_on_first(x: u64) -> u64 {
        STALL_STARTED.fetch_add(1, Ordering::SeqCst);
        if x == 0 {
            std::thread::sleep(std::time::Duration::from_millis(400));
        }
        x
    }

    /// While the consumer waits for a stalled task the other workers must not be dealt the rest of the
    /// input: at most one outstanding task per worker.
    #[test]
    fn harness_stalled_task_does_not_unleash_read_ahead() {
        let _g = lock();
        for threads in [2usize, 4] {
            STALL_STARTED.store(0, Ordering::SeqCst);
            let mut it = parallel_map(stalls_on_first, 0..500u64, threads);
            let first = it.next();
            assert_eq!(first, Some(0));
            let started = STALL_STARTED.load(Ordering::SeqCst);
            assert!(started <= 2 * threads + 2,
                "{started} tasks were started while the consumer waited for the first (stalled) result, threads={threads}");
            drop(it);
        }
    }

    #[test]
    fn harness_early_drop_joins_all_workers_at_every_position() {
        let _g = lock();
        for threads in [1usize, 2, 3, 5] {
            for n in [1u64, 2, 3, 4, 6, 9] {
                for take in 0..=n {
                    let before = threads_now();
                    let (tx, rx) = std::sync::mpsc::channel();
                    let handle = std::thread::spawn(move || {
                        let mut it = parallel_map(uneven, 0..n, threads);
                        for _ in 0..take {
                            let _ = it.next();
                        }
                        drop(it);
                        let _ = tx.send(());
                    });
                    match rx.recv_timeout(std::time::Duration::from_secs(20)) {
                        Ok(()) => {}
                        Err(_) => panic!("drop did not return: threads={threads} n={n} after {take} items (deadlock)"),
                    }
                    handle.join().unwrap();
                    // a joined thread can linger in /proc for a moment: poll before deciding
                    let mut after = threads_now();
                    let deadline = std::time::Instant::now() + std::time::Duration::from_secs(2);
                    while after > before && std::time::Instant::now() < deadline {
                        std::thread::sleep(std::time::Duration::from_millis(5));
                        after = threads_now();
                    }
                    assert!(after <= before, "threads left behind: {before} -> {after} (threads={threads} n={n} take={take})");
                }
            }
        }
    }

    /// Shard files prepared by the Python side: "<path>\t<compression>\t<examples or -1 if damaged>".
    #[test]
    fn harness_example_iterator_on_valid_and_hostile_shards() {
        use super::example_iteration::{CompressionType, ExampleIterator, ShardInfo};
        use std::str::FromStr;
        let _g = lock();
        let Ok(manifest) = std::env::var("RTMON_SHARD_MANIFEST") else { return; };
        let text = std::fs::read_to_string(manifest).unwrap();
        let mut checked = 0;
        for line in text.lines() {
            let parts: Vec<&str> = line.split('\t').collect();
            if parts.len() != 3 { continue; }
            let (path, comp, want) = (parts[0].to_string(), parts[1], parts[2].parse::<i64>().unwrap());
            let compression_type = CompressionType::from_str(comp).unwrap();
            for threads in [1usize, 2] {
                let info = ShardInfo { file_path: path.clone(), compression_type };
                let outcome = std::panic::catch_unwind(move || {
                    ExampleIterator::new(vec![info.clone(), info], false, threads).count()
                });
                match (outcome, want) {
                    (Ok(count), w) if w >= 0 => assert_eq!(count as i64, 2 * w, "{path}"),
                    (Ok(count), _) => {
                        // a damaged file that still parses must not produce examples silently from garbage
                        // beyond what it contains; nothing to assert on the count, only memory safety
                        let _ = count;
                    }
                    (Err(_), w) => assert!(w < 0, "valid shard {path} made the reader panic"),
                }
                checked += 1;
            }
        }
        assert!(checked > 0 || text.is_empty());
    }
}
