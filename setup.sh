#!/bin/bash
# Run once after a fresh restore, offline.  Installs the monitor libraries beside the framework and
# builds the Rust extension + native harness from /repo's working tree.  Fails loudly.
set -e
cd "$(dirname "$(readlink -f "$0")")"
export CARGO_NET_OFFLINE=true PIP_NO_INDEX=1 PYTHONDONTWRITEBYTECODE=1 TF_CPP_MIN_LOG_LEVEL=3
mkdir -p .deps .build .work replays evidence
if [ ! -d .deps/icontract ]; then
  /venv/bin/python -m pip install --quiet --no-index --find-links /opt/veriftools/wheels --target .deps icontract deal
fi
PYTHONPATH="$PWD" /venv/bin/python - <<'PY'
import sys
sys.path.append("/verif/.deps")
from rtmon import common, rustbuild
common.ensure_deps()
import icontract, numpy
print("icontract", icontract.__version__)
so = rustbuild.build()
print("rust extension built:", so)
rustbuild.load_built_extension()
import tensorflow, sedpack
common.assert_sedpack_is_working_tree()
print("sedpack", sedpack.__version__, "from", sedpack.__file__)
PY
echo "setup ok"
