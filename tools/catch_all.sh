#!/bin/bash
# For every incoming seed: apply to /repo, run the property's own quick check, restore, record the result.
# usage: tools/catch_all.sh [ids...]   -> appends JSON lines to .work/catch.jsonl
cd /verif
ids=${@:-C01 C02 C03 C04 C05 C06 C07 C08 C09 C10 C11 C12 C13 C14 C15 C16 C17 C18 C19 C20}
for id in $ids; do
  for n in 1 2; do
    dir=${SEED_SRC:-/verif/seeded/_incoming}/$id; patch=$dir/change$n.diff
    [ -f "$patch" ] || continue
    cd /repo
    if ! git diff --quiet; then echo "{\"id\":\"$id\",\"n\":$n,\"error\":\"repo dirty\"}" >> /verif/.work/${CATCH_OUT:-catch.jsonl}; cd /verif; continue; fi
    if ! git apply "$patch" 2>/dev/null; then echo "{\"id\":\"$id\",\"n\":$n,\"error\":\"does not apply\"}" >> /verif/.work/${CATCH_OUT:-catch.jsonl}; cd /verif; continue; fi
    cd /verif
    out=$(./check $id --no-evidence 2>&1); rc=$?
    keys=$(echo "$out" | grep -oE "key=[^ ]+" | sort -u | head -6 | tr '\n' ' ')
    git -C /repo checkout -q -- .
    echo "{\"id\":\"$id\",\"n\":$n,\"check\":\"$id\",\"exit\":$rc,\"keys\":\"$keys\"}" >> /verif/.work/${CATCH_OUT:-catch.jsonl}
  done
done
