#!/usr/bin/env python3
"""Regenerate /verif/MANIFEST.json from the table below (kept in one place so it stays consistent)."""
import json
import sys
from pathlib import Path

VERIF = Path(__file__).resolve().parent.parent

# id -> (level, text, note, technique, design_ref)
CHECKS = {
    "C01": ("exploration",
            "Round-trip oracle on canonical bytes: every value written (recorded as little-endian C-order bytes of the "
            "declared dtype) is compared bytewise, with shape and the format's dtype rule, against what each of the five "
            "readers returns, over formats x compressions x dtypes x ranks x value classes (min/max, +-0, inf, NaN "
            "payloads, subnormals, random bits, NUL-containing strings) x input presentations; icontract contracts on "
            "compress (inverse) and decode_array run on every shard. Held on the cells executed.",
            "Baseline of supported cells = spec/supported_cells.json (cells that round-trip on the pinned tree).",
            "runtime differential oracle (bytes written vs bytes read) + icontract postconditions", "DESIGN.md §3 C01"),
    "C02": ("exploration",
            "Multiset oracle on self-identifying examples (unique ids, payload recomputed from the id) over datasets x "
            "interfaces x shuffle sizes x parallelism straddling the prefill/buffer/thread boundaries, with worker "
            "completion orders forced by a FIFO gate (fb/npz, incl. the Rust threads) and seeded delay injection "
            "(TFRecord); a non-idempotent process_record reveals 0/1/2 applications; overlapping passes, threads sharing a handle and "
            "re-iterated tf.data pipeline objects (full, abandoned, full) included.",
            "TensorFlow-internal threads can only be perturbed, not controlled.",
            "runtime monitor: exactly-once oracle over recorded reader output under forced completion orders",
            "DESIGN.md §3 C02"),
    "C03": ("exploration",
            "Sequence oracle: with shuffle=0 every pass (same handle, reopened, other parallelism, other forced "
            "completion order incl. reversed) must yield the identical sequence, monotone in the write sequence per "
            "session/writer/split; FIFO gate forces adversarial completion orders; shuffled passes run on the same handle "
            "before ordered ones; selection options (shards, shard_filter, custom_metadata_type_limit) on interleaved "
            "metadata kinds must yield an increasing subsequence of the full pass.",
            "Order across different sessions is not asserted.",
            "runtime monitor: order/determinism oracle under FIFO-gated completion orders", "DESIGN.md §3 C03"),
    "C04": ("exploration",
            "Independent auditor (raw JSON walk, every shard decoded with the format's own decoder) after every session "
            "of generated histories + icontract postconditions on ShardsList.write_config, merge_shard_infos, "
            "Shard.write + handle-vs-fresh-open comparison.",
            "Refused writes inside completed sessions are shape/rank violations only; multi-writer sessions run "
            "single_process=True here (C09 covers real processes).",
            "runtime monitor: offline audit of the metadata tree after each session + online contracts",
            "DESIGN.md §3 C04"),
    "C05": ("fault_enumeration",
            "Every reachable file of committed datasets (flat, nested, multi-writer, continued) is tampered (bit flips at "
            "sampled/all offsets, truncation, extension, deletion, swap with sibling, rollback to every older version) "
            "and check(expected root checksums) must raise on a fresh and on the kept handle, and pass again after "
            "restoring; untampered datasets must pass.",
            "No-op tamperings (byte-identical swaps) are skipped by comparing bytes.",
            "fault injection on files + runtime oracle on check() raising", "DESIGN.md §3 C05"),
    "C06": ("fault_enumeration",
            "The real writer process is killed (strace inject SIGKILL) on entry to every k-th file-system call of the "
            "crashing session, plus torn prefixes of every write; the surviving directory is audited (metadata parse, "
            "reachable shards match digests) and iterated by a fresh reader: earlier sessions intact, only whole "
            "examples that were written. After every third crash state a normal 'recovery' session is run into the "
            "crashed dataset (committed data must survive it), and live cases run a slow writer while a reader keeps "
            "opening and iterating the dataset. Writer processes run with TMPDIR on another file system.",
            "Process crash with the OS staying up (no power loss); crash points = syscall boundaries seen by strace.",
            "crash-point enumeration via strace fault injection + offline auditor", "DESIGN.md §3 C06"),
    "C07": ("fault_enumeration",
            "Datasets with a deleted/emptied/truncated/garbage shard are iterated through every interface; outcome must "
            "be an exception: 'normal end with the shard's examples missing' is silent truncation, and a blocked process "
            "is diagnosed by the quiescence oracle (thread states, CPU, I/O, context switches, stacks) rather than a "
            "deadline; the lazy pool is additionally driven with failing (also late/slow) reads under the controlled "
            "scheduler. The Rust extension is rebuilt from rust/src.",
            "Premise per case: the independent single-shard decoder rejects the damaged file.",
            "fault injection on shard files + quiescence oracle for hangs", "DESIGN.md §3 C07"),
    "C08": ("exploration",
            "Reference-model multiset oracle after every session of generated histories (reused/nested sub-directories, "
            "multi-writer, reopen vs keep): iteration == everything accepted so far, payloads intact, sessions do not "
            "raise; Dataset.create on an existing dataset refused with the tree digest unchanged; a failed session between "
            "completed ones (later sessions add exactly their own); relative dataset root with chdir between sessions.",
            "One live handle at a time.", "runtime monitor: history + reference model (append-only multiset)",
            "DESIGN.md §3 C08"),
    "C09": ("exploration",
            "Real-process write_multiprocessing runs (fresh process each) with seeded delays in the feed function are "
            "compared with the single_process run of the same writers: per-split multiset, per-writer order, return "
            "values in argument order, audited metadata, check(); per-pid written path sets (from the writers' own "
            "logs and strace) must be disjoint; a third of the cases make the call twice on one dataset.",
            "Worker scheduling is perturbed by delays/CPU load, not controlled.",
            "differential runtime oracle (parallel vs sequential) + per-process write-set monitor", "DESIGN.md §3 C09"),
    "C10": ("exploration",
            "icontract postconditions on the filler's write_example/close_shard (online) + auditor: every shard 1..eps "
            "examples (recorded and decoded); every partial shard is last of its (session, writer, split) or followed "
            "by a metadata change; boundaries eps in {1..16}, counts k*eps+-1, rejected writes at boundaries.",
            "A rejected write carrying another metadata value counts as a metadata change of the argument sequence.",
            "runtime contracts + offline audit of shard sizes", "DESIGN.md §3 C10"),
    "C11": ("exploration",
            "Recorder snapshots (deep copy at call time) vs the recorded metadata of the shard that stores each id; "
            "selection by metadata through shard_filter; workloads mutate one shared dict (also nested parts) in place "
            "between writes.",
            "Examples written without metadata may sit in a labelled shard (documented).",
            "runtime monitor: call-time snapshots vs audited shard labels", "DESIGN.md §3 C11"),
    "C12": ("exploration",
            "Selected shard set computed from the audited shard list by the statement's definition; each interface's id "
            "multiset under shards=k / shard_filter / custom_metadata_type_limit compared with the ids stored in those "
            "shards; combined options compared across interfaces; empty selections must raise; differently restricted "
            "streams created first on one Dataset object and consumed later must each honour their own options.",
            "Enumeration order taken from the raw metadata walk (own shards, then children depth-first).",
            "differential runtime oracle: interface output vs contents of the selected shard files", "DESIGN.md §3 C12"),
    "C13": ("exploration",
            "Controlled scheduler driving the real LazyPool at queue-operation granularity (random, sticky, PCT, "
            "preemption-bounded DFS for T<=2,n<=3) with a virtual clock (timed waits, late-firing timers, pausing "
            "consumers, slow calls): multiset, no deadlock state, workers terminate after the context, pool reusable "
            "(after exit, and inside the same context after a caught failure or an ended early exit), "
            "failures of Exception/BaseException/SystemExit type; plus uncontrolled real-thread stress with the "
            "quiescence oracle.",
            "Shims cover queue.Queue/time.sleep/Thread.start; other primitives fall back to the stress mode.",
            "systematic schedule exploration (controlled scheduler) of the real code", "DESIGN.md §3 C13"),
    "C14": ("exploration",
            "Counting sources measure pulled-vs-yielded at every yield for shuffle_buffer/round_robin(+async)/LazyPool; "
            "shard reads observed by wrappers, FIFO-gate ready sets (Rust) and kernel open events (inotify; also sees "
            "TensorFlow's native TFRecord readers) for the dataset-level paths; measured "
            "at stream lengths N, 10N, infinite: read-ahead must be length-independent and below 4(b+T)+16.",
            "Only the affine bound and length-independence decide (retuning a prefetch constant is not an alarm).",
            "runtime monitor: read-ahead counters on instrumented sources and observed shard opens", "DESIGN.md §3 C14"),
    "C15": ("exploration",
            "Differential Python-vs-Rust reader on fb datasets under FIFO-gated completion orders (T<,=,>n), early drop "
            "at every position with thread counts from /proc/self/task before/after, overlapping iterators, repeating "
            "streams epoch by epoch (logical-step guard against empty epochs); native "
            "harness (#[path] wrapper crate) with out-of-order sleeps and in-flight counters, also under "
            "AddressSanitizer in the thorough tier.",
            "TSan/Miri unavailable (no rust-src); ASan needs the nightly toolchain present in the image.",
            "differential runtime oracle under forced completion orders + sanitizer run of the native harness",
            "DESIGN.md §3 C15"),
    "C16": ("exploration",
            "Runtime monitor: a postcondition contract on hash_checksums plus explicit comparison of every "
            "returned/stored digest with independent implementations (coreutils, openssl, pure-Python XXH32/64, "
            "published vectors) over file sizes around every multiple of the read buffer and algorithm tuples "
            "with permutations/repetitions; concurrent hashing from threads included; datasets audited after every "
            "session incl. reused sub-directories and a non-ASCII shard list whose bytes need more buffers than its "
            "characters.",
            "Trusts coreutils/openssl/hashlib one-shot digests; xxh128 only has one-shot xxhash + vectors.",
            "runtime contract (icontract) + differential oracle vs external digest tools", "DESIGN.md §3 C16"),
    "C17": ("exploration",
            "Crafted metadata (path grammar in every path-valued field) and writer sub-directory arguments; a child "
            "process loads/checks/iterates/writes under strace -f and a Python audit hook; any file-system call naming a "
            "path under the zone but outside the root, an accepted outside path, or a change of the canary tree is a "
            "violation; one dataset per batch is opened by a relative path and used after a chdir into a directory "
            "holding another dataset of the same name.",
            "Symbolic links are out of scope.", "system-call trace monitor (strace) + audit hook over a path grammar",
            "DESIGN.md §3 C17"),
    "C18": ("exploration",
            "Generated write sequences with ground-truth labels (valid / kind of violation) at every position incl. "
            "right after roll-overs; oracle: valid writes accepted, shape violations rejected, auditor and readers "
            "return exactly the accepted ids, counts exact; declaration cases over 14 dtypes x formats: accepted "
            "implies readable.",
            "Invalid-but-accepted is allowed only where the format does not enforce the dtype.",
            "runtime monitor: labelled write histories vs audited result + contracts", "DESIGN.md §3 C18"),
    "C19": ("exploration",
            "Prefixes of m in {2,3,5} epochs of repeat=True streams via islice + explicit close: membership, "
            "N-periodicity when unshuffled, per-epoch permutation for the Rust interface, overlapping repeating "
            "iterators, consumers overwriting yielded arrays in place, re-iterated repeating tf.data pipelines.",
            "'Forever' is restated as 'm epochs for every m tried'.", "runtime monitor on bounded stream prefixes",
            "DESIGN.md §3 C19"),
    "C20": ("exploration",
            "Random descriptions (unicode, nested JSON custom metadata at dataset/attribute/shard level, every "
            "setting) compared after reopen; relocation (copy/move to nested/unicode/blank/relative targets, '..' "
            "spellings, decomposed unicode): open, check, iterate identically, accept further writing; version triples "
            "around the running version must be refused iff newer, also with whole other releases (fresh interpreters "
            "with another sedpack.__version__) writing and reading through the ordinary API.",
            "Running version varied by patching sedpack.__version__ (read at call time).",
            "runtime differential oracle (before/after reopen and relocation) + version-gate table", "DESIGN.md §3 C20"),
}

NOT_YET = "check not built yet in this session (will be claimed once its monitor exists)"


def main() -> int:
    props = [json.loads(line)["id"] for line in (VERIF / "properties.jsonl").read_text().splitlines() if line.strip()]
    checks = []
    for pid in list(CHECKS):
        if not (VERIF / "rtmon" / "props" / f"{pid.lower()}.py").is_file():
            del CHECKS[pid]
    for pid in props:
        if pid not in CHECKS:
            continue
        level, text, note, technique, ref = CHECKS[pid]
        checks.append({
            "property_id": pid,
            "quick_cmd": f"./check {pid} --tier quick",
            "thorough_cmd": f"./check {pid} --tier thorough",
            "evidence_file": f"evidence/{pid}.json",
            "replay_cmd_template": f"./check {pid} --replay {{path}}",
            "engine": "rtmon",
            "level_claimed": {"category": level, "text": text, "design_ref": ref},
            "level_note": note,
            "technique": technique,
        })
    manifest = {
        "version": 1,
        "setup_cmd": "./setup.sh",
        "hooks": {
            "guard": "SEDPACK_VERIF",
            "enable": "no source hooks are needed: monitors attach from outside (attribute replacement, icontract "
                      "decorators applied by the harness, audit hooks, strace, FIFOs, #[path] wrapper crate); "
                      "SEDPACK_VERIF is reserved and currently unused",
            "baseline_off_cmd": "cd /repo && /venv/bin/python -m pytest -ra -q -p no:cacheprovider --timeout=900 "
                                "--continue-on-collection-errors",
            "source_commits": [],
            "add_only": True,
        },
        "engines": [{
            "name": "rtmon",
            "path": "rtmon/",
            "serves_properties": [c["property_id"] for c in checks],
            "kind_free_text": "runtime monitoring: real sedpack code driven by generated/hostile workloads in worker "
                              "processes; oracles over recorded events (self-identifying examples, independent "
                              "auditor, icontract contracts, controlled scheduler, FIFO gate, strace crash "
                              "injection, quiescence oracle)",
        }],
        "checks": checks,
        "notes": "Technique family: runtime monitoring and sanitizers. Verdicts are three-valued; exit 2 = inconclusive "
                 "(never folded into held or violated). KNOWN_FINDINGS.txt lists open findings and fixed defects.",
        "not_applicable": [{"property_id": pid, "reason": NOT_YET} for pid in props if pid not in CHECKS],
    }
    (VERIF / "MANIFEST.json").write_text(json.dumps(manifest, indent=1) + "\n")
    try:
        import jsonschema
        schema = json.loads(Path("/root/.vp/MANIFEST.schema.json").read_text())
        jsonschema.validate(manifest, schema)
        print(f"MANIFEST.json valid: {len(checks)} checks, {len(manifest['not_applicable'])} not claimed")
    except ImportError:
        print("jsonschema not available; wrote MANIFEST.json unvalidated")
    return 0


if __name__ == "__main__":
    sys.exit(main())
