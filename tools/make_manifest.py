#!/usr/bin/env python3
"""Regenerate /verif/MANIFEST.json from the table below (kept in one place so it stays consistent)."""
import json
import sys
from pathlib import Path

VERIF = Path(__file__).resolve().parent.parent

# id -> (level, text, note, technique, design_ref)
CHECKS = {
    "C16": ("exploration",
            "Runtime monitor: a postcondition contract on hash_checksums plus explicit comparison of every "
            "returned/stored digest with independent implementations (coreutils, openssl, pure-Python XXH32/64, "
            "published vectors) over file sizes around every multiple of the read buffer and algorithm tuples "
            "with permutations/repetitions. Held on the executions produced, not a proof.",
            "Trusts coreutils/openssl/hashlib one-shot digests; xxh128 only has one-shot xxhash + vectors.",
            "runtime contract (icontract) + differential oracle vs external digest tools",
            "DESIGN.md §3 C16"),
}

NOT_YET = "check not built yet in this session (will be claimed once its monitor exists)"


def main() -> int:
    props = [json.loads(line)["id"] for line in (VERIF / "properties.jsonl").read_text().splitlines() if line.strip()]
    checks = []
    for pid in props:
        if pid not in CHECKS:
            continue
        level, text, note, technique, ref = CHECKS[pid]
        checks.append({
            "property_id": pid,
            "quick_cmd": f"./check {pid} --tier quick",
            "thorough_cmd": f"./check {pid} --tier thorough",
            "evidence_file": f"evidence/{pid}.json",
            "replay_cmd_template": f"./check {pid} --replay {{path}}",
            "engine": "rtmon",
            "level_claimed": {"category": level, "text": text, "design_ref": ref},
            "level_note": note,
            "technique": technique,
        })
    manifest = {
        "version": 1,
        "setup_cmd": "./setup.sh",
        "hooks": {
            "guard": "SEDPACK_VERIF",
            "enable": "no source hooks are needed: monitors attach from outside (attribute replacement, icontract "
                      "decorators applied by the harness, audit hooks, strace, FIFOs, #[path] wrapper crate); "
                      "SEDPACK_VERIF is reserved and currently unused",
            "baseline_off_cmd": "cd /repo && /venv/bin/python -m pytest -ra -q -p no:cacheprovider --timeout=900 "
                                "--continue-on-collection-errors",
            "source_commits": [],
            "add_only": True,
        },
        "engines": [{
            "name": "rtmon",
            "path": "rtmon/",
            "serves_properties": [c["property_id"] for c in checks],
            "kind_free_text": "runtime monitoring: real sedpack code driven by generated/hostile workloads in worker "
                              "processes; oracles over recorded events (self-identifying examples, independent "
                              "auditor, icontract contracts, controlled scheduler, FIFO gate, strace crash "
                              "injection, quiescence oracle)",
        }],
        "checks": checks,
        "notes": "Technique family: runtime monitoring and sanitizers. Verdicts are three-valued; exit 2 = inconclusive "
                 "(never folded into held or violated). KNOWN_FINDINGS.txt lists open findings and fixed defects.",
        "not_applicable": [{"property_id": pid, "reason": NOT_YET} for pid in props if pid not in CHECKS],
    }
    (VERIF / "MANIFEST.json").write_text(json.dumps(manifest, indent=1) + "\n")
    try:
        import jsonschema
        schema = json.loads(Path("/root/.vp/MANIFEST.schema.json").read_text())
        jsonschema.validate(manifest, schema)
        print(f"MANIFEST.json valid: {len(checks)} checks, {len(manifest['not_applicable'])} not claimed")
    except ImportError:
        print("jsonschema not available; wrote MANIFEST.json unvalidated")
    return 0


if __name__ == "__main__":
    sys.exit(main())
