#!/bin/bash
# usage: tools/verify_seed.sh <ID> <N>     (seed files in /verif/seeded/_incoming/<ID>/changeN.diff, demoN.py, metaN.json)
# Confirms in a scratch worktree /tmp/wt-<ID> (at /repo HEAD): patch applies, suite passes with it, demo fails
# with it and passes without it.  Prints one JSON line; removes the worktree.
id=$1; n=$2
src=${SEED_SRC:-/verif/seeded/_incoming}/$id
wt=${WT_PREFIX:-/tmp/wt}-$id
export TF_CPP_MIN_LOG_LEVEL=3 PYTHONDONTWRITEBYTECODE=1
git -C /repo worktree remove --force $wt >/dev/null 2>&1; rm -rf $wt
git -C /repo worktree add -q --detach $wt HEAD || { echo "{\"id\":\"$id\",\"n\":$n,\"error\":\"worktree\"}"; exit 1; }
so=$wt/src/sedpack/_sedpack_rs.cpython-312-x86_64-linux-gnu.so
cp /verif/.build/rs/release/libsedpack_rs.so $so
mkdir -p $wt/_seed; cp $src/* $wt/_seed/ 2>/dev/null
cd $wt
applies=true
git apply --check _seed/change$n.diff 2>/dev/null || applies=false
res_suite="skipped"; demo_with=-1; demo_without=-1; rust=false
if $applies; then
  # demo without the change
  timeout 900 env PYTHONPATH=$wt/src /venv/bin/python _seed/demo$n.py >/tmp/vs-$id-$n.without.log 2>&1; demo_without=$?
  git apply _seed/change$n.diff
  if git diff --name-only | grep -q '^rust/'; then
    rust=true
    (cd rust && CARGO_TARGET_DIR=$wt/_target cargo build --release --offline --lib >/tmp/vs-$id-$n.cargo.log 2>&1) && cp $wt/_target/release/libsedpack_rs.so $so
  fi
  res_suite=$(timeout 1800 env PYTHONPATH=$wt/src /venv/bin/python -m pytest -q -p no:cacheprovider -n 10 --timeout=900 tests 2>&1 | tail -1)
  timeout 900 env PYTHONPATH=$wt/src /venv/bin/python _seed/demo$n.py >/tmp/vs-$id-$n.with.log 2>&1; demo_with=$?
fi
cd /verif
git -C /repo worktree remove --force $wt >/dev/null 2>&1; rm -rf $wt
echo "{\"id\":\"$id\",\"n\":$n,\"applies\":$applies,\"rust\":$rust,\"suite\":\"$res_suite\",\"demo_with_change_exit\":$demo_with,\"demo_without_change_exit\":$demo_without}"
