"""Regenerate spec/supported_cells.json (run on the pinned tree with the repairs applied)."""
import json
from rtmon import common, rustbuild
common.ensure_deps()
rustbuild.load_built_extension()
from rtmon.props import c01
spec = c01.calibrate()
c01.SPEC.parent.mkdir(exist_ok=True)
c01.SPEC.write_text(json.dumps(spec, indent=1, sort_keys=True) + "\n")
print(json.dumps(spec, indent=1, sort_keys=True))
