#!/bin/bash
# usage: tools/seedtest.sh <dir with changeN.diff> <N> <check id> [more check ids...]
# Applies a seeded change to /repo, runs the given checks (quick tier), and always restores /repo.
dir=$(readlink -f "$1"); n=$2; shift 2
patch="$dir/change$n.diff"; [ -f "$patch" ] || patch="$dir/patch.diff"
cd /repo || exit 2
if ! git diff --quiet; then echo "/repo has uncommitted changes, refusing"; exit 2; fi
if ! git apply --check "$patch" 2>/dev/null; then
  if ! git apply --3way "$patch" >/dev/null 2>&1; then echo "PATCH DOES NOT APPLY: $patch"; git checkout -q -- .; git reset -q; exit 3; fi
  git reset -q
else
  git apply "$patch"
fi
git diff --stat | tail -1
cd /verif
for c in "$@"; do
  out=$(./check "$c" --no-evidence ${SEED_ARGS} 2>&1); rc=$?
  echo "== $c exit=$rc"; echo "$out" | grep -E "^VIOLATION|key=|INCONCLUSIVE|KNOWN" | cut -c1-260 | head -8
done
git -C /repo checkout -q -- . ; git -C /repo status --short | head -3
