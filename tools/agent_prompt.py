#!/usr/bin/env python3
"""Print the prompt given to a fresh sub-agent for one property (only the property text + its worktree)."""
import json, sys
pid = sys.argv[1]
wt = sys.argv[2] if len(sys.argv) > 2 else f"/tmp/wt-{pid}"
for line in open("/verif/properties.jsonl"):
    p = json.loads(line)
    if p["id"] == pid:
        break
else:
    sys.exit("unknown property")
print(f"""You are helping to test a verification harness by producing a realistic *bug injection* for the open-source
Python/Rust library google/sedpack (an ML dataset packing library: sharded examples in FlatBuffers/npz/TFRecord
files with hashed JSON shard-list metadata and shuffled iteration).

Your private scratch git worktree of the repository is: {wt}
Work ONLY inside that directory (never touch /repo, never read or touch /verif). The library source is in
{wt}/src/sedpack (Python) and {wt}/rust/src (Rust). To make Python use YOUR copy, always run with
`PYTHONPATH={wt}/src /venv/bin/python ...` and check `sedpack.__file__` points into {wt}. The prebuilt native
extension `_sedpack_rs*.so` has been copied into {wt}/src/sedpack/; if you change Rust code, rebuild with
`cd {wt}/rust && CARGO_TARGET_DIR={wt}/_target cargo build --release --offline --lib` and copy
`{wt}/_target/release/libsedpack_rs.so` over `{wt}/src/sedpack/_sedpack_rs.cpython-312-x86_64-linux-gnu.so`
(delete {wt}/_target when done). There is no network. TensorFlow import takes a few seconds; set TF_CPP_MIN_LOG_LEVEL=3.

The existing test suite is run with:
  cd {wt} && PYTHONPATH={wt}/src /venv/bin/python -m pytest -q -p no:cacheprovider -n 8 --timeout=900 tests
(205 tests, all pass on the unmodified tree, about 30-60 s with -n 8).

THE PROPERTY (a semantic guarantee users rely on):
  Title: {p['title']}
  Statement: {p['statement']}
  Holds for: {p['quantifier']['text']}
  Why the existing tests cannot settle it: {p['why_tests_cant']}
  Code it is anchored in: {', '.join(p['anchors']['files'])}

YOUR TASK: produce up to TWO different, independent changes to the library source (different mechanisms, each as
its own patch) such that for each change:
  1. the library still imports/compiles and the WHOLE existing test suite still passes (all 205) with the change;
  2. the change BREAKS the property above for real users;
  3. the breakage needs something specific to manifest — a particular thread interleaving/timing, a crash or
     fault at a particular point, a multi-step sequence of operations, an unusual input/configuration value, or
     two cooperating code sites that each look fine alone. NOT something that ordinary use (the simplest
     write-then-read) would expose at once. It should look like a plausible mistake or "optimisation" a developer
     could make (off-by-one at a boundary, dropped flush, reordered steps, missing copy, wrong comparison, swallowed
     error, ...), not sabotage with magic constants.
  4. you provide a demonstration: a small standalone Python script (or pytest file) that FAILS (non-zero exit /
     assertion error / detects the hang with its own timeout) with the change applied and PASSES on the
     unmodified tree. The demonstration must be deterministic or nearly so (if timing-dependent, force the
     timing with sleeps/monkeypatching in the demo).

Deliverables, written into {wt}/_seed/ :
  - change1.diff (and change2.diff if you have a second): output of `git diff` for ONLY that change, relative to the
    unmodified HEAD (source files only; do not include the .so, _seed or _target);
  - demo1.py (demo2.py): the demonstration, runnable as
    `PYTHONPATH={wt}/src /venv/bin/python {wt}/_seed/demo1.py` (exit code 0 = property holds, non-zero = broken);
  - meta1.json (meta2.json): {{"property": "{pid}", "summary": "...what was changed...", "needs": "...what it needs
    in order to manifest...", "files": [...], "ran": "...commands you ran and their results (suite pass count with the
    change, demo result with and without the change)..."}}.
Before finishing: make sure each diff applies cleanly to a clean checkout (revert your edits with `git checkout -- .` and run `git apply --check _seed/changeN.diff`; do NOT use `git stash`, it is shared between worktrees),
that the suite passes with each change applied alone, that each demo fails with its change and passes without, and then
leave the worktree's tracked files UNMODIFIED (git checkout -- . ; keep only the untracked _seed/ directory).
Report briefly what you produced. Keep scratch data inside {wt} and clean up temporary datasets.""")
