"""run cases of a property in-process until one raises / has violations matching a substring"""
import sys, json, importlib, traceback
prop=sys.argv[1]; pat=sys.argv[2] if len(sys.argv)>2 else None; n=int(sys.argv[3]) if len(sys.argv)>3 else 400
m=importlib.import_module(f"rtmon.props.{prop}")
if getattr(m,"NEEDS_DEPS",False):
    from rtmon import common; common.ensure_deps()
if getattr(m,"NEEDS_RUST",False):
    from rtmon import rustbuild; rustbuild.load_built_extension()
if hasattr(m,"worker_init"): m.worker_init()
for i,c in enumerate(m.gen_cases("quick",0)[:n]):
    try: r=m.run_case(c)
    except Exception:
        if pat in (None,"EXC"):
            traceback.print_exc(); print(json.dumps(c)[:3000]); break
        continue
    hit=[v for v in r["violations"] if pat and pat!="EXC" and pat in (v["key"]+v["msg"])]
    if hit:
        print(json.dumps(c)[:3000]); print(hit[:3]); print(r.get("obs")); break
