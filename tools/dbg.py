"""debug helper: run cases of a property in-process-free mode and print violation message histogram"""
import sys, json, collections
from rtmon import orchestrator
import importlib
prop=sys.argv[1]; n=int(sys.argv[2]); tier=sys.argv[3] if len(sys.argv)>3 else "quick"
m=importlib.import_module(f"rtmon.props.{prop}")
cases=m.gen_cases(tier,int(sys.argv[4]) if len(sys.argv)>4 else 0)[:n]
recs=orchestrator.run_cases(prop,cases,workers=14,case_timeout=300,progress=False,quiescence_after=getattr(m,"QUIESCENCE_AFTER",None),quiescence_scope=getattr(m,"QUIESCENCE_SCOPE","tree"))
c=collections.Counter(); ex={}
for r in recs:
    if "res" not in r: c["NORES "+str({k:str(v)[:300] for k,v in r.items() if k!="case"})]+=1; continue
    for v in r["res"]["violations"]:
        k=v["key"]+" :: "+v["msg"][:110]; c[k]+=1; ex.setdefault(v["key"], r["case"])
    for v in r["res"].get("inconclusive",[]): c["INC "+v[:200]]+=1
for k,v in c.most_common(40): print(v,k)
json.dump(ex, open("/verif/.work/dbg_cases.json","w"))
