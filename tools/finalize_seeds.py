#!/usr/bin/env python3
"""Assemble /verif/seeded/<ID>-<n>/ (patch.diff, demo.py, meta.json) from seeded/_incoming + the verification
(.work/verify_seeds.jsonl, .work/verify_rebased.jsonl) and detection (.work/catch.jsonl) records, and print the
DESIGN.md table."""
import json, shutil, sys
from pathlib import Path
V = Path("/verif")
INCOMING = sys.argv[1] if len(sys.argv) > 1 else "_incoming"
OFFSET = int(sys.argv[2]) if len(sys.argv) > 2 else 0
VERIFY_FILES = sys.argv[3].split(",") if len(sys.argv) > 3 else ["verify_seeds.jsonl", "verify_rebased.jsonl"]
CATCH_FILES = sys.argv[4].split(",") if len(sys.argv) > 4 else ["catch.jsonl", "catch_extra.jsonl"]
def load(path):
    out = {}
    p = V / ".work" / path
    if p.is_file():
        for line in p.read_text().splitlines():
            try: d = json.loads(line)
            except Exception: continue
            out[(d["id"], d["n"])] = d
    return out
verify, catch = {}, {}
for name in VERIFY_FILES:
    verify.update(load(name))
for name in CATCH_FILES:
    catch.update(load(name))
rows = []
for inc in sorted((V / "seeded" / INCOMING).iterdir()):
    for n in (1, 2):
        patch = inc / f"change{n}.diff"
        if not patch.is_file(): continue
        key = (inc.name, n)
        v, c = verify.get(key), catch.get(key)
        if not v or not v.get("applies") or "205 passed" not in v.get("suite", "") or v["demo_with_change_exit"] in (0, -1) or v["demo_without_change_exit"] != 0:
            print("NOT CONFIRMED, skipped:", key, v, file=sys.stderr); continue
        dest = V / "seeded" / f"{inc.name}-{n + OFFSET}"
        dest.mkdir(exist_ok=True)
        shutil.copy(patch, dest / "patch.diff")
        shutil.copy(inc / f"demo{n}.py", dest / "demo.py")
        agent = json.loads((inc / f"meta{n}.json").read_text()) if (inc / f"meta{n}.json").is_file() else {}
        meta = {
            "property": inc.name,
            "summary": agent.get("summary"),
            "needs_to_manifest": agent.get("needs"),
            "files": agent.get("files"),
            "origin": "produced by a fresh sub-agent that saw only the property text and its own scratch worktree",
            "confirmed_in_scratch_worktree": {
                "command": f"tools/verify_seed.sh {inc.name} {n}  (worktree of /repo HEAD under /tmp, removed afterwards)",
                "patch_applies_to_repo_head": True,
                "rebuilt_rust_extension": v.get("rust", False),
                "suite_with_change": v["suite"],
                "demo_exit_with_change": v["demo_with_change_exit"],
                "demo_exit_without_change": v["demo_without_change_exit"],
            },
            "detection": {
                "command": f"git -C /repo apply seeded/{inc.name}-{n + OFFSET}/patch.diff && ./check {inc.name} --tier quick; git -C /repo checkout -- .",
                "check_exit": c.get("exit") if c else None,
                "violation_keys": c.get("keys", "").split() if c else None,
            },
            "agent_notes": agent.get("ran"),
        }
        (dest / "meta.json").write_text(json.dumps(meta, indent=1) + "\n")
        rows.append((inc.name, n + OFFSET, (agent.get("summary") or "")[:150].replace("\n", " ").replace("|", "/"),
                     c.get("exit") if c else "?", ", ".join(k.replace("key=", "") for k in (c.get("keys", "").split()[:3] if c else []))))
print("| seed | change (summary) | own check, quick tier | violation keys |")
print("|---|---|---|---|")
for pid, n, summary, rc, keys in rows:
    verdict = {1: "caught", 0: "MISSED", 2: "inconclusive"}.get(rc, str(rc))
    print(f"| {pid}-{n} | {summary} | {verdict} | {keys} |")
