"""Fork-server for crash injection (C06).

A light, long-lived process that imports sedpack once (and never executes a TensorFlow op itself).  For
every request it forks a child that waits on a pipe; `strace -f -p <child> -e inject=<syscall>:signal=
SIGKILL:when=K` is attached (we wait for TracerPid != 0), then the child is released, runs exactly one
writing session and is killed *on entry* to the K-th call of that syscall — all earlier file-system
effects applied, this one not.  Requests/answers are JSON lines on stdin/stdout.
"""
from __future__ import annotations

import json
import os
import signal
import subprocess
import sys
import time
import warnings

os.environ.setdefault("TF_CPP_MIN_LOG_LEVEL", "3")
warnings.filterwarnings("ignore")

TRACE_SET = ("openat,open,creat,write,pwrite64,writev,rename,renameat,renameat2,mkdir,mkdirat,unlink,unlinkat,"
             "close,ftruncate,link,linkat,fsync,fdatasync")


def run_session(root: str, spec: dict) -> None:
    """One writing session (optionally creating the dataset first)."""
    from pathlib import Path
    from sedpack.io import Dataset, DatasetFiller
    from rtmon import ds as dsmod, history as H
    if spec.get("create"):
        c = spec["create"]
        dataset = dsmod.create(Path(root), c["fmt"], c["comp"], c["eps"], hashes=tuple(c.get("hashes", ("sha256",))))
    else:
        dataset = Dataset(root)
    if spec["kind"] == "multi":
        dataset.write_multiprocessing(
            feed_writer=H.feed_writer,
            custom_arguments=[([{"split": s} for s, _ in writes], "std", spec["session"], w)
                              for w, writes in enumerate(spec["writers"])],
            single_process=spec.get("single_process", True))
        return
    cm = dataset.filler() if spec["kind"] == "root" else DatasetFiller(dataset, relative_path_from_split=Path(spec["subdir"]))
    import time
    with cm as filler:
        for split, ident in spec["writes"]:
            if spec.get("delay"):
                time.sleep(spec["delay"])      # a slow writer, for the live concurrent-reader cases
            filler.write_example(values=dsmod.example(ident), split=split)


def serve() -> None:
    import sedpack.io  # noqa: F401  pylint: disable=unused-import,import-outside-toplevel
    from rtmon import history  # noqa: F401  pylint: disable=unused-import,import-outside-toplevel
    out = os.fdopen(os.dup(1), "w", buffering=1)
    os.dup2(2, 1)
    out.write(json.dumps({"ready": True}) + "\n")
    for line in sys.stdin:
        line = line.strip()
        if not line:
            continue
        request = json.loads(line)
        out.write(json.dumps(handle(request)) + "\n")


def handle(request: dict) -> dict:
    read_fd, write_fd = os.pipe()
    pid = os.fork()
    if pid == 0:
        code = 4
        try:
            os.setsid()
            os.close(write_fd)
            os.read(read_fd, 1)
            run_session(request["root"], request["session"])
            code = 0
        except BaseException as exc:  # pylint: disable=broad-exception-caught
            try:
                sys.stderr.write(f"session failed: {type(exc).__name__}: {exc}\n")
            except Exception:  # pylint: disable=broad-exception-caught
                pass
            code = 3
        finally:
            os._exit(code)
    os.close(read_fd)
    cmd = ["strace", "-f", "-y", "-qq", "-s", "64", "-e", f"trace={TRACE_SET}", "-o", request["log"], "-p", str(pid)]
    inject = request.get("inject")
    if inject:
        cmd += ["-e", f"inject={inject['syscall']}:signal=SIGKILL:when={inject['when']}"]
    if request.get("untraced"):
        cmd = ["sleep", "0"]
    tracer = subprocess.Popen(cmd, stdout=subprocess.DEVNULL, stderr=subprocess.PIPE)
    attached = False
    for _ in range(0 if request.get("untraced") else 5000):
        try:
            status = open(f"/proc/{pid}/status").read()
        except OSError:
            break
        if "TracerPid:\t0" not in status:
            attached = True
            break
        time.sleep(0.001)
    os.write(write_fd, b"g")
    os.close(write_fd)
    deadline = time.monotonic() + request.get("timeout", 60)
    status = None
    while time.monotonic() < deadline:
        done, status = os.waitpid(pid, os.WNOHANG)
        if done:
            break
        status = None
        time.sleep(0.002)
    timed_out = status is None
    # the whole session dies with its first process: kill the group (worker pools would hang otherwise)
    try:
        os.killpg(pid, signal.SIGKILL)
    except (ProcessLookupError, PermissionError):
        pass
    if timed_out:
        _, status = os.waitpid(pid, 0)
    try:
        tracer.wait(timeout=10)
    except subprocess.TimeoutExpired:
        tracer.kill()
    return {"attached": attached, "signaled": os.WIFSIGNALED(status), "exit": os.WEXITSTATUS(status) if os.WIFEXITED(status) else None,
            "timed_out": timed_out}


if __name__ == "__main__":
    serve()
