"""History runner: executes a generated history of writing sessions against the real sedpack API.

The *recorder* logs every client-boundary call (write_example with a deep-copied metadata snapshot and
its outcome, session enter/exit, multi-writer calls); the *reference model* (`Model`) is rebuilt from that
log and answers what any reader/auditor must find.  Used by C04, C08, C10, C11, C18 (and C05/C20 for
building committed datasets).
"""
from __future__ import annotations

import copy
import random
from collections import Counter
from dataclasses import dataclass, field
from pathlib import Path
from typing import Any, Callable

import numpy as np

from rtmon import ds as dsmod

ATTR_SETS = {
    "std": [("id", "int64", ()), ("x", "float32", (3,))],
    "std3": [("id", "int64", ()), ("x", "float32", (3,)), ("y", "uint8", (2, 2))],
    "stdb": [("id", "int64", ()), ("x", "float32", (3,)), ("b", "bytes", ())],
}


def attributes(name: str):
    from sedpack.io.metadata import Attribute  # pylint: disable=import-outside-toplevel
    return [Attribute(name=n, dtype=d, shape=s) for n, d, s in ATTR_SETS[name]]


def y_payload(example_id: int) -> np.ndarray:
    i = int(example_id)
    return np.array([[i % 256, (i >> 8) % 256], [(i >> 16) % 256, 7]], dtype=np.uint8)


def b_payload(example_id: int) -> bytes:
    return f"blob-{int(example_id)}|".encode() * (int(example_id) % 3 + 1)


def good_values(example_id: int, attr_set: str) -> dict[str, Any]:
    values = dsmod.example(example_id)
    if attr_set == "std3":
        values["y"] = y_payload(example_id)
    if attr_set == "stdb":
        values["b"] = b_payload(example_id)
    return values


BAD_KINDS = ("shape", "rank", "dtype_unsafe", "dtype_foreign", "container", "object", "missing", "extra")
MUST_REJECT = ("shape", "rank")   # the statement demands rejection of shape violations in every format


def effective_kind(attr_set: str, kind: str, attr_idx: int) -> str:
    """Variable-size (bytes) attributes have no shape/rank/container to violate: those kinds become a
    foreign-dtype value."""
    _, dtype, _ = ATTR_SETS[attr_set][attr_idx % len(ATTR_SETS[attr_set])]
    if dtype == "bytes" and kind in ("shape", "rank", "dtype_unsafe", "container"):
        return "dtype_foreign"
    return kind


def bad_values(example_id: int, attr_set: str, kind: str, attr_idx: int) -> dict[str, Any]:
    """A write that violates the declaration in exactly one way, on attribute number `attr_idx`."""
    values = good_values(example_id, attr_set)
    names = [n for n, _, _ in ATTR_SETS[attr_set]]
    name, dtype, shape = ATTR_SETS[attr_set][attr_idx % len(names)]
    good = np.asarray(values[name])
    kind = effective_kind(attr_set, kind, attr_idx)
    if kind == "dtype_foreign" and dtype == "bytes":
        values[name] = np.array([1.5, 2.5])
        return values
    if kind == "shape":
        new_shape = (2,) if shape == () else tuple(shape[:-1]) + (shape[-1] + 1,)
        values[name] = np.resize(good, new_shape).astype(dtype)
    elif kind == "rank":
        values[name] = good.reshape((1,) + tuple(shape))
    elif kind == "dtype_unsafe":
        if "int" in dtype:
            values[name] = (np.zeros(shape, dtype=np.float64) + 1.5)
        else:
            values[name] = np.full(shape, 1e300, dtype=np.float64)
    elif kind == "dtype_foreign":
        values[name] = np.full(shape, "text", dtype="<U4")
    elif kind == "container":
        values[name] = "not an array" if shape != () else [1, 2, 3]
    elif kind == "object":
        values[name] = np.full(shape, None, dtype=object)
    elif kind == "missing":
        del values[name]
    elif kind == "extra":
        values["zzz_unexpected"] = np.int64(1)
    else:
        raise ValueError(kind)
    return values


@dataclass
class WriteRec:
    session: int
    writer: int
    split: str
    ident: int
    meta: dict | None            # deep copy taken at call time (None = argument absent)
    bad: str | None
    accepted: bool
    exc: str | None = None
    seq: int = 0                 # position in the session's call order


@dataclass
class SessionRec:
    index: int
    kind: str
    subdir: str | None
    completed: bool
    exc: str | None = None
    returns: Any = None


@dataclass
class Model:
    """Reference model rebuilt from the recorder's log."""
    writes: list[WriteRec] = field(default_factory=list)
    sessions: list[SessionRec] = field(default_factory=list)

    def accepted(self, split: str | None = None, upto_session: int | None = None) -> list[WriteRec]:
        return [w for w in self.writes if w.accepted and (split is None or w.split == split)
                and (upto_session is None or w.session <= upto_session)]

    def expected_counter(self, split: str, upto_session: int | None = None) -> Counter:
        return Counter(w.ident for w in self.accepted(split, upto_session))

    def splits(self, upto_session: int | None = None) -> list[str]:
        return sorted({w.split for w in self.accepted(None, upto_session)})


# -------------------------------------------------------------------------------- multi-writer feed
def feed_writer(dataset_filler, writes: list[dict], attr_set: str, session: int, writer: int,
                delays: list[float] | None = None, start_at: float | None = None) -> dict:
    """Module-level (picklable) feed function for `write_multiprocessing`.  Returns its own log."""
    import os  # pylint: disable=import-outside-toplevel
    import time  # pylint: disable=import-outside-toplevel
    log = []
    delays = delays or []
    if start_at is not None:
        # all writers start writing at the same instant (maximises contention on shared paths)
        time.sleep(max(0.0, start_at - time.time()))
    if delays:
        time.sleep(delays[0])
    t_first = None
    with dataset_filler as filler:
        for k, write in enumerate(writes):
            if t_first is None:
                t_first = time.time()
            if len(delays) > 1:
                time.sleep(delays[1 + k % (len(delays) - 1)] if len(delays) > 2 else delays[1])
            ident = dsmod.make_id(write["split"], session, writer, k)
            kwargs = {}
            if write.get("meta") is not None:
                kwargs["custom_metadata"] = write["meta"]
            filler.write_example(values=good_values(ident, attr_set), split=write["split"], **kwargs)
            log.append([write["split"], ident])
    return {"writer": writer, "pid": os.getpid(), "log": log, "t_end": time.time(),
            "t_first": t_first}


# -------------------------------------------------------------------------------- the runner
def run_history(root: Path, hist: dict, after_session: Callable | None = None,
                keep_handle: dict | None = None) -> Model:
    """Execute `hist` (see module docstring of the property modules for its shape).

    `after_session(k, dataset_handle, model)` is called after every session that completed.
    """
    from sedpack.io import Dataset, DatasetFiller, Metadata  # pylint: disable=import-outside-toplevel
    attr_set = hist.get("attrs", "std")
    model = Model()
    structure = dsmod.structure(hist["fmt"], hist["comp"], hist["eps"], attrs=attributes(attr_set),
                                hashes=hist.get("hashes", ("sha256",)))
    dataset = Dataset.create(root, Metadata(description=hist.get("description", "rtmon history"),
                                            custom_metadata=hist.get("ds_meta", {})), structure)
    meta_objects: dict[str, dict] = {}

    for k, session in enumerate(hist["sessions"]):
        if hist.get("reseed") is not None:
            # an application that seeds the global RNG before every run (reproducible shuffling)
            random.seed(hist["reseed"])
        if session.get("reopen"):
            dataset = Dataset(root)
        rec = SessionRec(index=k, kind=session["kind"], subdir=session.get("subdir"), completed=False)
        model.sessions.append(rec)
        try:
            if session["kind"] in ("root", "subdir"):
                if session["kind"] == "root":
                    filler_cm = dataset.filler()
                else:
                    filler_cm = DatasetFiller(dataset, relative_path_from_split=Path(session["subdir"]))
                with filler_cm as filler:
                    for seq, write in enumerate(session["writes"]):
                        ident = dsmod.make_id(write["split"], k, 0, seq)
                        meta_arg = None
                        spec = write.get("meta")
                        if spec is not None:
                            if "obj" in spec:
                                obj = meta_objects.setdefault(spec["obj"], {})
                                if spec.get("clear"):
                                    obj.clear()
                                obj.update(copy.deepcopy(spec.get("set", {})))
                                for outer, inner, value in spec.get("nested_set", []):
                                    # mutate a nested container of the caller's object *in place*
                                    obj.setdefault(outer, {})[inner] = copy.deepcopy(value)
                                meta_arg = obj
                            else:
                                meta_arg = copy.deepcopy(spec["lit"])
                                for key in spec.get("as_tuple", []):
                                    # case descriptions travel as JSON: restore tuple-valued metadata
                                    if key in meta_arg:
                                        meta_arg[key] = tuple(meta_arg[key])
                        snapshot = copy.deepcopy(meta_arg)
                        bad = write.get("bad")
                        if bad:
                            values = bad_values(ident, attr_set, bad["kind"], bad.get("attr", 0))
                        else:
                            values = good_values(ident, attr_set)
                        wrec = WriteRec(session=k, writer=0, split=write["split"], ident=ident,
                                        meta=snapshot,
                                        bad=effective_kind(attr_set, bad["kind"], bad.get("attr", 0))
                                        if bad else None,
                                        accepted=False, seq=seq)
                        model.writes.append(wrec)
                        try:
                            if meta_arg is not None:
                                filler.write_example(values=values, split=write["split"],
                                                     custom_metadata=meta_arg)
                            else:
                                filler.write_example(values=values, split=write["split"])
                            wrec.accepted = True
                        except Exception as exc:  # pylint: disable=broad-exception-caught
                            wrec.exc = f"{type(exc).__name__}: {str(exc)[:160]}"
            elif session["kind"] == "multi":
                writers = session["writers"]
                returns = dataset.write_multiprocessing(
                    feed_writer=feed_writer,
                    custom_arguments=[(writes, attr_set, k, w) for w, writes in enumerate(writers)],
                    custom_kwarguments=[{"delays": session.get("delays", {}).get(str(w)),
                                         "start_at": session.get("start_at")}
                                        for w in range(len(writers))] if (session.get("delays") or
                                                                          session.get("start_at")) else None,
                    consistency_check=session.get("consistency_check", True),
                    single_process=session.get("single_process", True))
                rec.returns = returns
                for w, writes in enumerate(writers):
                    for seq, write in enumerate(writes):
                        model.writes.append(WriteRec(
                            session=k, writer=w, split=write["split"],
                            ident=dsmod.make_id(write["split"], k, w, seq),
                            meta=copy.deepcopy(write.get("meta")), bad=None, accepted=True, seq=seq))
            else:
                raise ValueError(session["kind"])
            rec.completed = True
        except Exception as exc:  # pylint: disable=broad-exception-caught
            import traceback  # pylint: disable=import-outside-toplevel
            rec.exc = f"{type(exc).__name__}: {str(exc)[:300]} @ " + \
                " <- ".join(f"{f.name}:{f.lineno}" for f in traceback.extract_tb(exc.__traceback__)[-3:])
        if keep_handle is not None:
            keep_handle["dataset"] = dataset
        if after_session is not None:
            after_session(k, dataset, model)
        if not rec.completed:
            break
    return model


# -------------------------------------------------------------------------------- generators
def gen_counts(rng: random.Random, eps: int) -> int:
    """Per-split example counts around multiples of the shard size."""
    k = rng.choice([0, 1, 1, 2, 3])
    return max(0, k * eps + rng.choice([-1, 0, 0, 1]) + (rng.choice([0, 1]) if k == 0 else 0))


def gen_session_writes(rng: random.Random, eps: int, splits: list[str], metas: list | None = None) -> list[dict]:
    writes = []
    for split in splits:
        for _ in range(gen_counts(rng, eps)):
            writes.append({"split": split})
    rng.shuffle(writes)
    if metas:
        current = None
        for write in writes:
            if rng.random() < 0.35:
                current = rng.choice(metas)
            if current is not None:
                write["meta"] = {"lit": current}
    return writes


SUBDIRS = ["a", "b", "a/b", "a/b/c", "d/e", "a/x", "deep/er/est"]


def gen_history(rng: random.Random, *, max_sessions: int = 5, formats=None, with_multi: bool = True,
                subdir_bias: float = 0.5) -> dict:
    fmt = rng.choice(formats or list(dsmod.FORMATS))
    comp = rng.choice(dsmod.COMPRESSIONS[fmt])
    eps = rng.choice([1, 2, 3, 4, 7])
    n_sessions = rng.randint(1, max_sessions)
    sessions = []
    used_subdirs: list[str] = []
    for _ in range(n_sessions):
        roll = rng.random()
        splits = rng.sample(list(dsmod.SPLITS), rng.randint(1, 3))
        if with_multi and roll < 0.2:
            writers = []
            for _w in range(rng.randint(1, 4)):
                writers.append(gen_session_writes(rng, eps, rng.sample(splits, rng.randint(1, len(splits)))))
            sessions.append({"kind": "multi", "writers": writers, "single_process": True,
                             "reopen": rng.random() < 0.4})
        elif roll < 0.2 + subdir_bias * 0.8:
            if used_subdirs and rng.random() < 0.5:
                subdir = rng.choice(used_subdirs)          # previously used sub-directory
            else:
                subdir = rng.choice(SUBDIRS)
            used_subdirs.append(subdir)
            sessions.append({"kind": "subdir", "subdir": subdir, "reopen": rng.random() < 0.4,
                             "writes": gen_session_writes(rng, eps, splits)})
        else:
            sessions.append({"kind": "root", "reopen": rng.random() < 0.4,
                             "writes": gen_session_writes(rng, eps, splits)})
    hist = {"fmt": fmt, "comp": comp, "eps": eps, "sessions": sessions}
    roll = rng.random()
    if roll < 0.15:
        hist["hashes"] = []                 # no checksum algorithm configured
    elif roll < 0.25:
        hist["hashes"] = ["xxh64", "md5"]
    if rng.random() < 0.15:
        hist["reseed"] = rng.randrange(1000)
    return hist


def history_shape(hist: dict) -> list:
    """Signature used for distinctness: session kinds/dirs/splits/reopen flags/count classes."""
    shape = [hist["fmt"], hist["eps"]]
    for session in hist["sessions"]:
        if session["kind"] == "multi":
            per = [sorted(Counter(w["split"] for w in ws).items()) for ws in session["writers"]]
            shape.append(["multi", bool(session.get("reopen")), per])
        else:
            shape.append([session["kind"], session.get("subdir"), bool(session.get("reopen")),
                          sorted(Counter(w["split"] for w in session["writes"]).items())])
    return shape
