"""Parent-side driver: N worker processes, one case at a time per worker, watchdog + quiescence oracle.

`multiprocessing.Pool` is deliberately not used (it hangs for ever when a child dies).  A worker that
hangs or dies is diagnosed, killed and respawned; the run continues with the next case.
"""
from __future__ import annotations

import json
import os
import queue
import select
import signal
import subprocess
import threading
import time
from pathlib import Path

from rtmon import common
from rtmon.monitors import quiescence


USED_PIDS: set[int] = set()


def _rss(pid: int) -> int:
    try:
        return int(open(f"/proc/{pid}/statm").read().split()[1]) * os.sysconf("SC_PAGE_SIZE")
    except (OSError, ValueError, IndexError):
        return 0


def sweep_scratch() -> None:
    """Remove scratch directories left behind by workers that were killed (names carry the creating pid)."""
    for pid in list(USED_PIDS):
        for path in common.WORK_ROOT.glob(f"*-{pid}-*"):
            common.rm(path)


class Worker:
    """One `python -m rtmon.worker <module>` child process."""

    def __init__(self, module: str, idx: int, logdir: Path, env_extra: dict | None = None):
        self.module, self.idx, self.logdir = module, idx, logdir
        self.env_extra = env_extra or {}
        self.proc: subprocess.Popen | None = None
        self.buf = b""
        self.generation = 0
        self.start()

    def start(self) -> None:
        self.generation += 1
        self.log_path = self.logdir / f"worker{self.idx}.{self.generation}.log"
        env = dict(os.environ)
        env.update(self.env_extra)
        env["RTMON_WORKER_IDX"] = str(self.idx)
        self.log = open(self.log_path, "wb")
        self.proc = subprocess.Popen(
            [common.PY, "-m", "rtmon.worker", self.module],
            stdin=subprocess.PIPE, stdout=subprocess.PIPE, stderr=self.log,
            cwd=str(common.VERIF), env=env, start_new_session=True)
        self.buf = b""
        self.ready = False
        USED_PIDS.add(self.proc.pid)

    def send(self, obj) -> None:
        assert self.proc and self.proc.stdin
        self.proc.stdin.write((json.dumps(obj) + "\n").encode())
        self.proc.stdin.flush()

    def read_line(self, timeout: float) -> dict | None | str:
        """Return a decoded JSON message, None on timeout, or 'EOF' when the worker died."""
        assert self.proc and self.proc.stdout
        fd = self.proc.stdout.fileno()
        deadline = time.monotonic() + timeout
        while True:
            if b"\n" in self.buf:
                line, self.buf = self.buf.split(b"\n", 1)
                try:
                    return json.loads(line)
                except json.JSONDecodeError:
                    continue  # stray output, ignore
            remaining = deadline - time.monotonic()
            if remaining <= 0:
                return None
            ready, _, _ = select.select([fd], [], [], min(remaining, 1.0))
            if ready:
                chunk = os.read(fd, 1 << 16)
                if not chunk:
                    return "EOF"
                self.buf += chunk

    def kill(self) -> None:
        if self.proc is None:
            return
        try:
            os.killpg(self.proc.pid, signal.SIGKILL)
        except (ProcessLookupError, PermissionError):
            pass
        try:
            self.proc.wait(timeout=10)
        except subprocess.TimeoutExpired:
            pass
        for stream in (self.proc.stdin, self.proc.stdout):
            try:
                if stream:
                    stream.close()
            except OSError:
                pass
        self.log.close()
        self.proc = None

    def log_tail(self, n: int = 60) -> str:
        try:
            self.log.flush()
            lines = self.log_path.read_text(errors="replace").splitlines()
            return "\n".join(lines[-n:])
        except OSError:
            return ""


def run_cases(module: str, cases: list[dict], *, workers: int, case_timeout: float,
              quiescence_after: float | None = None, env_extra: dict | None = None,
              startup_timeout: float = 180.0, progress: bool = True,
              rss_limit: int | None = None, max_hangs: int = 8, quiescence_scope: str = "tree") -> list[dict]:
    """Run every case in some worker; returns one result record per case (same order).

    Result record: {"case": case, "res": {...}} | {"case": case, "error": str, "sedpack_frame": bool}
                   | {"case": case, "timeout": True, "diag": {...}} | {"case": case, "died": str}
    `quiescence_after`: seconds without an answer after which thread states are sampled; a process
    diagnosed as quiescent-blocked is reported at once (decision on state, not on the clock).
    """
    logdir = common.new_workdir(f"orch-{module}")
    todo: queue.Queue = queue.Queue()
    for i, case in enumerate(cases):
        todo.put((i, case))
    results: list[dict | None] = [None] * len(cases)
    done_count = [0]
    lock = threading.Lock()
    t0 = time.monotonic()

    hung = [0]
    retried = [0]

    def loop(idx: int) -> None:
        worker = Worker(module, idx, logdir, env_extra)
        try:
            while True:
                try:
                    i, case = todo.get_nowait()
                except queue.Empty:
                    return
                if hung[0] >= max_hangs:
                    # enough witnesses: do not spend a watchdog period on every remaining case
                    with lock:
                        results[i] = {"case": case, "skipped": True}
                        done_count[0] += 1
                    continue
                record = run_one(worker, case)
                if record.get("timeout") and record.get("diag", {}).get("verdict") != "quiescent" \
                        and case.get("_retries", 0) < 1 and not case.get("no_retry"):
                    # the watchdog fired on a *busy* process: undecidable, not a verdict.  Re-run the case in a
                    # fresh worker with a doubled budget before the run may be called inconclusive.
                    case["_retries"] = case.get("_retries", 0) + 1
                    case["timeout"] = 1.5 * float(case.get("timeout", case_timeout))
                    try:
                        # keep a trace of what was undecidable (for the person reading a slow run afterwards)
                        with open(common.WORK_ROOT / "retried_cases.jsonl", "a", encoding="utf-8") as handle:
                            handle.write(json.dumps({"module": module, "case": case, "diag": {
                                k: v for k, v in record.get("diag", {}).items() if k != "stacks"}}, default=str) + "\n")
                    except OSError:
                        pass
                    with lock:
                        retried[0] += 1
                    todo.put((i, case))
                    continue
                if record.get("died") and "memory limit" not in record["died"] and case.get("_died_retries", 0) < 1:
                    # a worker that vanished once is tried again in a fresh process; only a repeat is reported
                    case["_died_retries"] = 1
                    with lock:
                        retried[0] += 1
                    todo.put((i, case))
                    continue
                if record.get("timeout"):
                    with lock:
                        hung[0] += 1
                record["case"] = case
                with lock:
                    results[i] = record
                    done_count[0] += 1
                    if progress and done_count[0] % max(1, len(cases) // 10) == 0:
                        print(f"  [{module}] {done_count[0]}/{len(cases)} cases "
                              f"({time.monotonic() - t0:.0f}s)", flush=True)
        finally:
            worker.kill()

    def run_one(worker: Worker, case: dict) -> dict:
        if worker.proc is None:
            worker.start()
        if not worker.ready:
            msg = worker.read_line(startup_timeout)
            if not (isinstance(msg, dict) and msg.get("ready")):
                tail = worker.log_tail()
                worker.kill()
                return {"died": f"worker failed to start: {msg!r}\n{tail}"}
            worker.ready = True
        try:
            worker.send({"case": case})
        except (BrokenPipeError, OSError):
            worker.kill()
            return {"died": "worker stdin closed"}
        timeout = float(case.get("timeout", case_timeout))
        start = time.monotonic()
        rss_start = _rss(worker.proc.pid)
        next_probe = quiescence_after
        while True:
            elapsed = time.monotonic() - start
            wait = min(timeout - elapsed, 1.0 if next_probe is None else max(0.05, next_probe - elapsed))
            if wait <= 0:
                wait = 0.05
            msg = worker.read_line(wait)
            if isinstance(msg, dict):
                return msg
            if msg == "EOF":
                tail = worker.log_tail()
                code = worker.proc.poll() if worker.proc else None
                worker.kill()
                return {"died": f"worker exited (status {code})\n{tail}"}
            elapsed = time.monotonic() - start
            if rss_limit is not None and worker.proc:
                try:
                    rss = int(open(f"/proc/{worker.proc.pid}/statm").read().split()[1]) * os.sysconf("SC_PAGE_SIZE")
                except (OSError, ValueError, IndexError):
                    rss = 0
                if rss > rss_limit:
                    worker.kill()
                    return {"died": f"memory limit: resident set {rss >> 20} MiB exceeded {rss_limit >> 20} MiB "
                                    f"after {elapsed:.0f}s (killed by the parent's memory guard)"}
            if next_probe is not None and elapsed >= next_probe and worker.proc:
                diag = quiescence.diagnose(worker.proc.pid, worker.log_path, scope=quiescence_scope)
                if diag["verdict"] == "quiescent":
                    # believe it only if a second, independent look a moment later says the same
                    late = worker.read_line(1.5)
                    if isinstance(late, dict):
                        return late
                    diag = quiescence.diagnose(worker.proc.pid, worker.log_path, scope=quiescence_scope)
                if diag["verdict"] == "quiescent":
                    # the answer may have arrived while we were sampling (an idle worker waiting for its next
                    # case is quiescent too): look into the channel before believing the diagnosis
                    late = worker.read_line(0.2)
                    if isinstance(late, dict):
                        return late
                    worker.kill()
                    return {"timeout": True, "diag": diag, "elapsed": elapsed}
                next_probe = elapsed + max(5.0, quiescence_after or 5.0)
            if elapsed >= timeout:
                diag = quiescence.diagnose(worker.proc.pid, worker.log_path, scope=quiescence_scope) if worker.proc else {}
                late = worker.read_line(0.2)
                if isinstance(late, dict):
                    return late
                rss_end = _rss(worker.proc.pid) if worker.proc else 0
                worker.kill()
                return {"timeout": True, "diag": diag, "elapsed": elapsed, "rss_start": rss_start, "rss_end": rss_end}

    threads = [threading.Thread(target=loop, args=(i,), daemon=True)
               for i in range(max(1, min(workers, len(cases))))]
    for thread in threads:
        thread.start()
    for thread in threads:
        thread.join()
    common.rm(logdir)
    sweep_scratch()
    if retried[0] and progress:
        print(f"  [{module}] {retried[0]} case(s) re-run after an undecidable watchdog firing", flush=True)
    return [r if r is not None else {"case": cases[i], "died": "never ran"}
            for i, r in enumerate(results)]
