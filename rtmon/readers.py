"""Uniform adapters for the five iteration interfaces."""
from __future__ import annotations

import asyncio
import itertools
from typing import Any, Callable

INTERFACES = ("sync", "conc", "async", "rust", "tfds")

# Which selection options each interface accepts (by signature).
ACCEPTS = {
    "sync": {"shards", "shard_filter", "custom_metadata_type_limit"},
    "conc": {"shards", "shard_filter", "custom_metadata_type_limit", "file_parallelism"},
    "async": {"shards", "shard_filter", "file_parallelism"},
    "rust": {"shards", "shard_filter", "file_parallelism"},
    "tfds": {"shards", "shard_filter", "custom_metadata_type_limit", "file_parallelism", "parallelism"},
}


def supports(iface: str, fmt: str, comp: str) -> bool:
    if iface == "async":
        return fmt in ("fb", "npz")
    if iface == "rust":
        return fmt == "fb" and comp in ("", "LZ4", "GZIP", "ZLIB")
    return True


def interfaces_for(fmt: str, comp: str) -> list[str]:
    return [i for i in INTERFACES if supports(i, fmt, comp)]


def double_plus_one(example: dict) -> dict:
    """Non-idempotent per-example transformation (works on NumPy values and inside tf.data.map):
    the output reveals whether it was applied 0, 1 or 2 times."""
    out = dict(example)
    out["id"] = example["id"] * 2 + 1
    return out


def open_stream(dataset, iface: str, split: str, *, shuffle: int = 0, repeat: bool = False,
                process_record: Callable | None = None, **options: Any):
    """Return (iterator, closer).  Options not accepted by the interface raise KeyError."""
    for name in options:
        if name not in ACCEPTS[iface]:
            raise KeyError(f"{iface} does not accept {name}")
    kwargs = dict(split=split, shuffle=shuffle, repeat=repeat, process_record=process_record, **options)
    if iface == "sync":
        gen = dataset.as_numpy_iterator(**kwargs)
        return iter(gen), getattr(gen, "close", lambda: None)
    if iface == "conc":
        gen = dataset.as_numpy_iterator_concurrent(**kwargs)
        return iter(gen), getattr(gen, "close", lambda: None)
    if iface == "rust":
        gen = dataset.as_numpy_iterator_rust(**kwargs)
        return iter(gen), getattr(gen, "close", lambda: None)
    if iface == "tfds":
        kwargs.pop("split")
        tfds = dataset.as_tfdataset(split, batch_size=0, **kwargs)
        iterator = iter(tfds.as_numpy_iterator())
        return iterator, lambda: None
    if iface == "async":
        loop = asyncio.new_event_loop()
        agen = dataset.as_numpy_iterator_async(**kwargs)

        def sync_iter():
            try:
                while True:
                    try:
                        yield loop.run_until_complete(agen.__anext__())
                    except StopAsyncIteration:
                        return
            finally:
                pass

        def closer():
            try:
                loop.run_until_complete(agen.aclose())
            finally:
                loop.run_until_complete(loop.shutdown_asyncgens())
                loop.close()

        return sync_iter(), closer
    raise ValueError(iface)


def read(dataset, iface: str, split: str, *, limit: int | None = None, **kwargs: Any) -> list[dict]:
    """Materialise one pass (or the first `limit` elements of a stream)."""
    iterator, closer = open_stream(dataset, iface, split, **kwargs)
    try:
        if limit is None:
            return list(iterator)
        return list(itertools.islice(iterator, limit))
    finally:
        closer()
