"""C18 Write-time validation is all-or-nothing and never poisons a shard.

Monitor: every generated write carries its ground-truth label (valid / kind of violation); the recorder
adds the outcome.  Oracle after the session: (a) every write built to be valid was accepted (a rejected
write must not poison the filler), (b) shape/rank violations were rejected, (c) independent auditor and
the sedpack readers return exactly the accepted ids with intact payloads and the recorded counts equal
the decodable examples (a rejected write left no trace, an accepted write never made a shard
undecodable).  Declaration cases write valid values under every dtype declaration: either the format
refuses, or what it accepted must stay readable.
"""
from __future__ import annotations

import random
from collections import Counter

from rtmon import common
from rtmon import audit as auditor
from rtmon import ds as dsmod
from rtmon import history as H

LEVEL = "exploration"
NEEDS_DEPS = True
WORKERS = 14
CASE_TIMEOUT = 300
REQUIRED_OBS = ["invalid_writes", "rejected_writes", "valid_writes_after_a_rejection", "readback_checks",
                "contract_evals"]
RULE = ("formats x attribute sets (fixed-size only / with a variable-size bytes attribute) x wrong attribute "
        "(first, middle, last, missing, extra) x violation kind (shape, rank, unsafe dtype, foreign dtype, wrong "
        "container, object values) x position in the shard (first, middle, last, right after a roll-over by size or "
        "by metadata change) x metadata of the following writes (same/different/none) x splits; plus declaration "
        "cases over 14 dtypes x formats. Distinct = (format, attr set, per write: split, kind@attribute, metadata "
        "token); non-trivial iff the sequence contains >=1 invalid write (or is a declaration case).")
ASSUMPTIONS = ["'invalid but accepted' is allowed only where the format does not enforce the dtype, and then the "
               "dataset must stay readable and count the example", "shape and rank violations must be rejected by "
               "every format (statement)"]

DTYPES = ["int8", "uint8", "int16", "uint16", "int32", "uint32", "int64", "uint64",
          "float16", "float32", "float64", "bool", "str", "bytes"]
METAS = [{"m": 1}, {"m": 2}]


def gen_hist(rng: random.Random) -> dict:
    fmt = rng.choice(["fb", "npz", "tfrec"])
    comp = rng.choice(["", "LZ4"] if fmt == "fb" else ["", "ZIP"] if fmt == "npz" else ["", "GZIP"])
    eps = rng.choice([1, 2, 3, 4])
    # FlatBuffers shards have no variable-size attributes (covered by the declaration cases)
    attr_set = "std3" if fmt == "fb" else rng.choice(["std3", "std3", "stdb"])
    n_attrs = len(H.ATTR_SETS[attr_set])
    splits = rng.sample(["train", "test", "holdout"], rng.randint(1, 2))
    use_meta = rng.random() < 0.6
    writes = []
    per_split = Counter()
    current = None
    n = rng.randint(2, 4 * eps + 2)
    for _ in range(n):
        split = rng.choice(splits)
        if use_meta and rng.random() < 0.3:
            current = rng.choice(METAS + [None])
        # probability of a bad write is higher right at shard boundaries
        at_boundary = per_split[split] % eps == 0
        if rng.random() < (0.45 if at_boundary else 0.15):
            bad = {"split": split, "bad": {"kind": rng.choice(H.BAD_KINDS), "attr": rng.randrange(n_attrs)}}
            if bad["bad"]["kind"] == "dtype_unsafe" and bad["bad"]["attr"] == 0:
                # a format that does not enforce the dtype may accept this; the id attribute must stay
                # usable for the oracle, so the unsafe value goes to a payload attribute instead
                bad["bad"]["attr"] = 1
            meta_choice = rng.choice(["same", "different", "none"])
            if use_meta and meta_choice != "none":
                value = current if (meta_choice == "same" and current) else rng.choice(METAS)
                bad["meta"] = {"lit": value}
            writes.append(bad)
        write = {"split": split}
        if current is not None:
            write["meta"] = {"lit": current}
        writes.append(write)
        per_split[split] += 1
    sessions = [{"kind": "root", "writes": writes}]
    if rng.random() < 0.25:
        sessions.append({"kind": "root", "reopen": True, "writes": [{"split": splits[0]} for _ in range(eps + 1)]})
    return {"fmt": fmt, "comp": comp, "eps": eps, "attrs": attr_set, "sessions": sessions}


def gen_cases(tier: str, seed: int) -> list[dict]:
    rng = random.Random(seed * 1031 + 18)
    n = 500 if tier == "quick" else 10000
    cases = [{"kind": "hist", "hist": gen_hist(rng)} for _ in range(n)]
    for fmt in ("fb", "npz", "tfrec"):
        for dtype in DTYPES:
            for shape in ([(), (3,)] if dtype not in ("str", "bytes") else [()]):
                cases.append({"kind": "decl", "fmt": fmt, "dtype": dtype, "shape": list(shape),
                              "vseed": rng.randrange(1 << 30)})
    if tier == "quick":
        rng.shuffle(cases)
    return cases


def worker_init() -> None:
    from rtmon.monitors import contracts
    contracts.attach({"Shard.write", "write_example"})


def run_case(case: dict) -> dict:
    from rtmon.monitors import contracts
    contracts.reset()
    work = common.new_workdir("c18")
    try:
        if case["kind"] == "decl":
            return run_decl(case, work)
        return run_hist(case, work)
    finally:
        common.rm(work)


def read_ids(root, fmt, comp, violations, obs, want: Counter, split: str, ifaces=("sync", "conc"),
             skip_payload=None):
    from sedpack.io import Dataset
    from rtmon import readers
    fresh = Dataset(root)
    for iface in ifaces:
        try:
            examples = readers.read(fresh, iface, split, shuffle=0, repeat=False,
                                    **({"file_parallelism": 2} if iface != "sync" else {}))
        except Exception as exc:  # pylint: disable=broad-exception-caught
            violations.append({"key": f"accepted-write-unreadable/{fmt}",
                               "msg": f"{iface} reader of {split} raised {type(exc).__name__}: {str(exc)[:200]}"})
            continue
        ids, problems = dsmod.ids_of(examples, skip_payload)
        obs["readback_checks"] += 1
        if Counter(ids) != want:
            violations.append({"key": f"readback-differs/{fmt}",
                               "msg": f"{iface} reader of {split}: missing "
                                      f"{list((want - Counter(ids)).elements())[:4]} unexpected "
                                      f"{list((Counter(ids) - want).elements())[:4]}"})
        for problem in problems:
            violations.append({"key": f"payload-changed/{fmt}", "msg": problem})


def run_hist(case: dict, work) -> dict:
    from rtmon.monitors import contracts
    hist = case["hist"]
    fmt = hist["fmt"]
    violations: list[dict] = []
    obs: Counter = Counter()
    root = work / "ds"
    model = H.run_history(root, hist)
    for session in model.sessions:
        if not session.completed:
            violations.append({"key": f"session-raised/{fmt}", "msg": f"session {session.index}: {session.exc}"})
    seen_rejection = set()
    for write in model.writes:
        key = (write.session, write.split)
        if write.bad:
            obs["invalid_writes"] += 1
            obs[f"{'accepted' if write.accepted else 'rejected'}:{fmt}:{write.bad}"] += 1
            if write.accepted and write.bad in H.MUST_REJECT:
                violations.append({"key": f"shape-violation-accepted/{fmt}/{write.bad}",
                                   "msg": f"write #{write.seq} ({write.bad}) was accepted"})
            if not write.accepted:
                obs["rejected_writes"] += 1
                seen_rejection.add(write.session)
        else:
            if write.session in seen_rejection:
                obs["valid_writes_after_a_rejection"] += 1
            if not write.accepted:
                violations.append({"key": f"valid-write-rejected/{fmt}",
                                   "msg": f"valid write #{write.seq} of session {write.session} raised {write.exc}"})
    if all(s.completed for s in model.sessions):
        report = auditor.audit(root, check_digests=False)
        for key, msg in report.problems:
            violations.append({"key": f"audit/{key}/{fmt}", "msg": msg})
        for split in dsmod.SPLITS:
            want = model.expected_counter(split)
            on_disk = split in report.info.get("splits", {})
            if not want and not on_disk:
                continue
            if Counter(report.ids(split)) != want and not any(p[0] == "shard-undecodable" for p in report.problems):
                violations.append({"key": f"trace-of-rejected-write/{fmt}",
                                   "msg": f"{split}: stored ids differ from accepted ids: stored-accepted="
                                          f"{list((Counter(report.ids(split)) - want).elements())[:4]} "
                                          f"accepted-stored={list((want - Counter(report.ids(split))).elements())[:4]}"})
            if on_disk and want:
                read_ids(root, fmt, hist["comp"], violations, obs, want, split,
                         skip_payload={w.ident for w in model.writes if w.bad})
    evals, failures = contracts.snapshot()
    for failure in failures:
        violations.append({"key": f"contract/{failure['contract']}", "msg": failure["msg"]})
    obs["contract_evals"] = sum(evals.values())
    pattern = [[(w["split"][0] + (f"!{w['bad']['kind']}@{w['bad']['attr']}" if w.get("bad") else "") +
                 ("" if "meta" not in w else f"m{w['meta']['lit']['m']}")) for w in s["writes"]]
               for s in hist["sessions"]]
    return {"sig": [fmt, hist["attrs"], hist["eps"], pattern],
            "nontrivial": obs["invalid_writes"] > 0, "violations": violations, "obs": dict(obs),
            "sample": {"fmt": fmt, "attrs": hist["attrs"], "eps": hist["eps"], "pattern": pattern}}


def decl_value(dtype: str, shape: tuple, rng) -> object:
    import numpy as np
    if dtype == "str":
        return "text-" + str(int(rng.integers(1000)))
    if dtype == "bytes":
        return b"raw-" + bytes(rng.integers(1, 255, size=5, dtype=np.uint8))
    if dtype == "bool":
        return rng.integers(0, 2, size=shape).astype(bool)
    if dtype.startswith("float"):
        return rng.normal(size=shape).astype(dtype)
    info = np.iinfo(dtype)
    return rng.integers(max(info.min, -1000), min(info.max, 1000), size=shape).astype(dtype)


def run_decl(case: dict, work) -> dict:
    import numpy as np
    from sedpack.io import Dataset
    from sedpack.io.metadata import Attribute
    from rtmon import readers
    fmt, dtype, shape = case["fmt"], case["dtype"], tuple(case["shape"])
    violations: list[dict] = []
    obs: Counter = Counter()
    obs["invalid_writes"] = 0
    rng = np.random.default_rng(case["vseed"])
    root = work / "ds"
    attrs = [Attribute(name="id", dtype="int64", shape=()), Attribute(name="x", dtype="float32", shape=(3,)),
             Attribute(name="v", dtype=dtype, shape=shape)]
    outcome = "accepted"
    try:
        dataset = dsmod.create(root, fmt, "", 2, attrs=attrs)
    except Exception as exc:  # pylint: disable=broad-exception-caught
        return {"sig": ["decl", fmt, dtype, list(shape)], "nontrivial": True, "violations": [],
                "obs": {"declarations_refused_at_create": 1, f"decl:{fmt}:{dtype}": ["refused-at-create"]},
                "sample": {"decl": [fmt, dtype, list(shape)], "outcome": f"create refused: {type(exc).__name__}"}}
    ids = [dsmod.make_id("train", 0, 0, k) for k in range(5)]
    accepted = []
    try:
        with dataset.filler() as filler:
            for ident in ids:
                values = dsmod.example(ident)
                values["v"] = decl_value(dtype, shape, rng)
                try:
                    filler.write_example(values=values, split="train")
                    accepted.append(ident)
                except Exception as exc:  # pylint: disable=broad-exception-caught
                    outcome = f"rejected:{type(exc).__name__}"
    except Exception as exc:  # pylint: disable=broad-exception-caught
        violations.append({"key": f"session-raised/{fmt}/decl-{dtype}",
                           "msg": f"closing the session raised {type(exc).__name__}: {str(exc)[:200]}"})
        accepted = []
    if accepted and len(accepted) != len(ids):
        outcome = "mixed"
    if accepted:
        want = Counter(accepted)
        for iface in readers.interfaces_for(fmt, ""):
            if iface == "tfds" and fmt != "tfrec" and dtype in ("str", "bytes"):
                # as_tfdataset builds a TensorSpec from the dtype name: str/bytes attributes of npz datasets
                # are outside what that interface supports (an interface limit, not an undecodable shard)
                obs["interface_limits_skipped"] += 1
                continue
            try:
                examples = readers.read(Dataset(root), iface, "train", shuffle=0, repeat=False)
                got, problems = dsmod.ids_of(examples)
                obs["readback_checks"] += 1
                if Counter(got) != want:
                    violations.append({"key": f"readback-differs/{fmt}/decl-{dtype}", "msg": f"{iface}: {got}"})
                for problem in problems:
                    violations.append({"key": f"payload-changed/{fmt}/decl-{dtype}", "msg": problem})
            except Exception as exc:  # pylint: disable=broad-exception-caught
                violations.append({"key": f"accepted-write-unreadable/{fmt}/decl-{dtype}",
                                   "msg": f"{iface} reader raised {type(exc).__name__}: {str(exc)[:300]}"})
    obs["declaration_cases"] = 1
    return {"sig": ["decl", fmt, dtype, list(shape)], "nontrivial": True, "violations": violations,
            "obs": {**obs, f"decl:{fmt}": [f"{dtype}{list(shape)}={outcome}"]},
            "sample": {"decl": [fmt, dtype, list(shape)], "outcome": outcome}}
