"""Oracles shared by the history-driven properties (C04, C08, C10, C11, C18)."""
from __future__ import annotations

from collections import Counter
from pathlib import Path

from rtmon import audit as auditor
from rtmon import ds as dsmod
from rtmon import history as H


def oracle_c04(root: Path, dataset, model: H.Model, k: int, violations: list, obs: Counter) -> auditor.Audit:
    """Exactness of the metadata tree after session k."""
    from sedpack.io import Dataset  # pylint: disable=import-outside-toplevel
    report = auditor.audit(root)
    obs["sessions_audited"] += 1
    obs["shard_files_decoded"] += sum(1 for s in report.shards if s.ids is not None)
    obs["lists_walked"] += len(report.lists)
    for key, msg in report.problems:
        violations.append({"key": f"audit/{key}", "msg": f"after session {k}: {msg}"})
    # per-split truth vs description
    for split in model.splits(k):
        want = sum(model.expected_counter(split, k).values())
        got = report.info.get("splits", {}).get(split, {}).get("number_of_examples", 0)
        if want != got:
            violations.append({"key": "split-total-vs-writes",
                               "msg": f"after session {k}: split {split} records {got} examples, "
                                      f"{want} were written"})
    # in-memory description of the writing handle == fresh open
    fresh = Dataset(root)
    mem, disk = dataset._dataset_info.model_dump(), fresh._dataset_info.model_dump()  # pylint: disable=protected-access
    obs["handle_vs_disk_comparisons"] += 1
    if mem != disk:
        diff = [key for key in mem if mem[key] != disk.get(key)]
        violations.append({"key": "handle-description-differs-from-disk",
                           "msg": f"after session {k}: in-memory description differs from a fresh open in {diff}"})
    # sedpack's own enumeration agrees with the raw walk
    for split in report.info.get("splits", {}):
        mine = [s.path for s in report.shards if s.split == split]
        theirs = [str(s.file_infos[0].file_path) for s in fresh.shard_info_iterator(split)]
        if sorted(mine) != sorted(theirs):
            violations.append({"key": "enumeration-differs", "msg": f"split {split}: shard_info_iterator "
                                                                     f"{len(theirs)} vs raw walk {len(mine)}"})
    return report


def oracle_c08(root: Path, model: H.Model, k: int, violations: list, obs: Counter,
               report: auditor.Audit | None = None, only_missing: bool = False, kept_handle=None) -> None:
    """Append-only: per split, what iteration returns == everything accepted so far.

    `only_missing`: after a session that raised (reported separately) only the survival of previously
    committed examples is demanded; what a failed session leaves behind is not specified."""
    from sedpack.io import Dataset  # pylint: disable=import-outside-toplevel
    fresh = Dataset(root)
    splits_on_disk = set(fresh._dataset_info.splits)  # pylint: disable=protected-access
    for split in dsmod.SPLITS:
        want = model.expected_counter(split, k)
        if split not in splits_on_disk:
            if want:
                violations.append({"key": "split-lost", "msg": f"after session {k}: split {split} absent, "
                                                               f"{sum(want.values())} examples expected"})
            continue
        if not want:
            continue
        try:
            examples = list(fresh.as_numpy_iterator(split=split, shuffle=0, repeat=False))
        except Exception as exc:  # pylint: disable=broad-exception-caught
            violations.append({"key": "iteration-raised", "msg": f"after session {k}: reading {split}: {exc!r}"})
            continue
        ids, problems = dsmod.ids_of(examples)
        obs["multiset_checks"] += 1
        obs["examples_read"] += len(ids)
        got = Counter(ids)
        if only_missing:
            got = got & want
        if got != want:
            missing = list((want - got).elements())[:5]
            extra = list((got - want).elements())[:5]
            violations.append({"key": "not-append-only",
                               "msg": f"after session {k}: split {split}: missing {missing} "
                                      f"({sum((want - got).values())}), unexpected {extra} "
                                      f"({sum((got - want).values())})"})
        for problem in problems:
            violations.append({"key": "payload-changed", "msg": f"after session {k}: {problem}"})
        if kept_handle is not None and not only_missing and split in kept_handle._dataset_info.splits:  # pylint: disable=protected-access
            # the writing handle itself (used before and after the session) must see the same
            try:
                kept_ids, _ = dsmod.ids_of(kept_handle.as_numpy_iterator(split=split, shuffle=0, repeat=False))
                obs["kept_handle_reads"] += 1
                if Counter(kept_ids) != want:
                    violations.append({"key": "kept-handle-sees-stale-data",
                                       "msg": f"after session {k}: split {split}: the writing handle iterates "
                                              f"{len(kept_ids)} examples, {sum(want.values())} were written"})
            except Exception as exc:  # pylint: disable=broad-exception-caught
                violations.append({"key": "iteration-raised", "msg": f"kept handle, split {split}: {exc!r}"})
        if report is not None and not only_missing:
            if Counter(report.ids(split)) != want:
                violations.append({"key": "not-append-only/auditor",
                                   "msg": f"after session {k}: split {split}: independent decoding of the "
                                          f"listed shards disagrees with the writes"})


def oracle_create_refused(root: Path, hist: dict, violations: list, obs: Counter) -> None:
    from sedpack.io import Dataset, Metadata  # pylint: disable=import-outside-toplevel
    from sedpack.io.errors import DatasetExistsError  # pylint: disable=import-outside-toplevel
    import os  # pylint: disable=import-outside-toplevel
    before = auditor.tree_digest(root)
    structure = dsmod.structure(hist["fmt"], hist["comp"], hist["eps"])
    # the existing dataset is named in several spellings: absolute, relative to the working directory,
    # with a redundant component, and through "~" (HOME pointed at the scratch directory)
    cwd, home = os.getcwd(), os.environ.get("HOME")
    spellings = {"absolute": str(root), "relative": root.name, "dotted": f"./{root.name}/.", "tilde": f"~/{root.name}",
                 "pathlib": root}
    try:
        os.chdir(root.parent)
        os.environ["HOME"] = str(root.parent)
        for name, spelled in spellings.items():
            try:
                Dataset.create(spelled, Metadata(description="clobber"), structure)
                violations.append({"key": f"create-not-refused/{name}",
                                   "msg": f"Dataset.create({spelled!r}) on an existing dataset returned"})
            except DatasetExistsError:
                pass
            except Exception as exc:  # pylint: disable=broad-exception-caught
                # Any refusal is acceptable for the statement; record the type.
                obs["create_refused_other_exception"] += 1
                del exc
            obs["refused_creates"] += 1
    finally:
        os.chdir(cwd)
        if home is None:
            os.environ.pop("HOME", None)
        else:
            os.environ["HOME"] = home
    after = auditor.tree_digest(root)
    if before != after:
        changed = sorted(set(before.items()) ^ set(after.items()))[:4]
        violations.append({"key": "refused-create-changed-tree", "msg": f"{changed}"})


def shards_by_writer(report: auditor.Audit, model: H.Model):
    """Map each audited shard to the (session, writer, split) of the ids it holds."""
    by_id = {w.ident: w for w in model.writes}
    groups: dict[tuple, list] = {}
    for shard in report.shards:
        if not shard.ids:
            continue
        owners = {(by_id[i].session, by_id[i].writer, by_id[i].split) for i in shard.ids if i in by_id}
        if len(owners) != 1:
            continue
        first_seq = min(by_id[i].seq for i in shard.ids if i in by_id)
        groups.setdefault(owners.pop(), []).append((first_seq, shard))
    return {key: [s for _, s in sorted(items, key=lambda t: t[0])] for key, items in groups.items()}


def oracle_c10(report: auditor.Audit, model: H.Model, eps: int, violations: list, obs: Counter) -> None:
    for shard in report.shards:
        obs["shards_audited"] += 1
        decoded = len(shard.ids) if shard.ids is not None else None
        for what, count in (("recorded", shard.recorded), ("decoded", decoded)):
            if count is None:
                continue
            if count < 1:
                violations.append({"key": "empty-shard-recorded", "msg": f"{shard.path}: {what} {count} examples"})
            elif count > eps:
                violations.append({"key": "oversized-shard", "msg": f"{shard.path}: {what} {count} > eps={eps}"})
    for key, shards in shards_by_writer(report, model).items():
        for pos, shard in enumerate(shards):
            size = len(shard.ids)
            if size == eps:
                obs["full_shards"] += 1
                continue
            obs["partial_shards"] += 1
            is_last = pos == len(shards) - 1
            if is_last:
                continue
            if shards[pos + 1].metadata != shard.metadata:
                obs["partial_before_metadata_change"] += 1
                continue
            # The caller's metadata argument did change if a *rejected* write carrying another non-empty
            # value came between the two shards: the roll-over is decided before validation.  That is a
            # metadata change in the sense of the statement, not a size violation.
            by_id = {w.ident: w for w in model.writes}
            last_seq = max(by_id[i].seq for i in shard.ids)
            next_seq = min(by_id[i].seq for i in shards[pos + 1].ids)
            if any((not w.accepted) and w.meta and w.meta != shard.metadata and
                   (w.session, w.writer, w.split) == key and last_seq < w.seq < next_seq
                   for w in model.writes):
                obs["partial_before_rejected_metadata_change"] += 1
                continue
            violations.append({"key": "partial-shard-not-last",
                               "msg": f"session/writer/split {key}: shard #{pos} of {len(shards)} holds {size} "
                                      f"of {eps} examples although the next shard has the same metadata "
                                      f"{shard.metadata}"})
        if len(shards) > 1:
            obs["rollovers"] += len(shards) - 1


def oracle_c11(root: Path, report: auditor.Audit, model: H.Model, violations: list, obs: Counter,
               select: bool = True) -> None:
    from sedpack.io import Dataset  # pylint: disable=import-outside-toplevel
    shard_of: dict[int, auditor.ShardRec] = {}
    for shard in report.shards:
        for ident in shard.ids or []:
            shard_of[ident] = shard
    values_by_split: dict[str, list[dict]] = {}
    for write in model.accepted():
        if not write.meta:
            continue
        obs["ids_checked"] += 1
        shard = shard_of.get(write.ident)
        if shard is None:
            violations.append({"key": "labelled-example-lost", "msg": f"id {write.ident} not found in any shard"})
            continue
        if shard.metadata != write.meta:
            violations.append({"key": "wrong-shard-metadata",
                               "msg": f"id {write.ident} written with {write.meta} is stored in a shard "
                                      f"labelled {shard.metadata}"})
        bucket = values_by_split.setdefault(write.split, [])
        if write.meta not in bucket:
            bucket.append(write.meta)
    if not select:
        return
    fresh = Dataset(root)
    for split, values in values_by_split.items():
        for value in values:
            want_all = {w.ident for w in model.accepted(split) if w.meta == value}
            other_labelled = {w.ident for w in model.accepted(split) if w.meta and w.meta != value}
            try:
                examples = list(fresh.as_numpy_iterator(
                    split=split, shuffle=0, repeat=False,
                    shard_filter=lambda info, v=value: info.custom_metadata == v))
            except Exception as exc:  # pylint: disable=broad-exception-caught
                violations.append({"key": "selection-raised", "msg": f"{split} {value}: {exc!r}"})
                continue
            obs["selections_evaluated"] += 1
            got, _ = dsmod.ids_of(examples)
            got_set = set(got)
            if not want_all <= got_set:
                violations.append({"key": "selection-misses-examples",
                                   "msg": f"{split} metadata=={value}: missing {sorted(want_all - got_set)[:5]}"})
            if got_set & other_labelled:
                violations.append({"key": "selection-returns-foreign-examples",
                                   "msg": f"{split} metadata=={value}: also returned "
                                          f"{sorted(got_set & other_labelled)[:5]} written under other metadata"})
            if len(got) != len(got_set):
                violations.append({"key": "selection-duplicates", "msg": f"{split} {value}"})
