"""C03 Unshuffled iteration is deterministic and preserves write order.

Monitor: with shuffle=0 the sequence yielded by every pass (same handle, reopened handle, other
file_parallelism, other interface, other *forced* worker completion order — FIFO gate incl. the reversed
order, the adversarial case for ordered maps and for the Rust rotation) must be identical, and the ids of
one (session, writer, split) must appear in write order; writers of one multi-writer call in argument
order.  Real-process multi-writer sessions are included (a few per run, fresh process each).
"""
from __future__ import annotations

import json
import os
import random
import subprocess
from collections import Counter

from rtmon import common
from rtmon import ds as dsmod
from rtmon import readers
from rtmon.props import _iter

LEVEL = "exploration"
NEEDS_RUST = True
WORKERS = 14
CASE_TIMEOUT = 420
QUIESCENCE_AFTER = 60.0
REQUIRED_OBS = ["passes", "gated_passes", "sequence_comparisons", "reversed_completion_orders", "selection_passes",
                "shuffled_passes_before_ordered_ones",
                "multi_writer_sessions"]
RULE = ("single- and multi-session histories with interleaved splits and multi-writer calls x interface x "
        "file_parallelism in {1..S+2} x repeated passes / reopen x forced completion orders (reverse, random, "
        "middle, in-order) or delay seeds. Distinct = (format, history shape class, interface, parallelism, "
        "completion-order hash); non-trivial iff the split has >=2 shards and >=2 passes were compared.")
ASSUMPTIONS = ["order across different sessions is not asserted (only determinism across passes)"]


def gen_cases(tier: str, seed: int) -> list[dict]:
    rng = random.Random(seed * 1063 + 3)
    n = 90 if tier == "quick" else 1200
    cases = [{"hist": _iter.gen_dataset_history(rng, formats=["fb", "fb", "npz", "tfrec"] if k % 2 else None),
              "pseed": rng.randrange(1 << 30), "passes": 8 if tier == "quick" else 14} for k in range(n)]
    # multi-writer calls with many writers (argument order must survive any naming/sorting of their directories)
    for k in range(6 if tier == "quick" else 60):
        fmt = ["fb", "npz", "tfrec"][k % 3]
        n_writers = rng.choice([10, 11, 12, 13, 15])
        writers = [[{"split": rng.choice(["train", "train", "test"])} for _ in range(rng.randint(1, 2))] for _ in range(n_writers)]
        for w in writers:
            w[0]["split"] = "train"
        cases.append({"hist": {"fmt": fmt, "comp": "", "eps": 2, "sessions": [
            {"kind": "multi", "writers": writers, "single_process": True}]},
            "pseed": rng.randrange(1 << 30), "passes": 4})
    # shard selection options must not disturb the order: metadata kinds interleave within one session
    for k in range(12 if tier == "quick" else 120):
        fmt = ["fb", "npz", "tfrec"][k % 3]
        kinds = rng.randint(2, 3)
        writes, current = [], 0
        for _ in range(rng.randint(8, 18)):
            if rng.random() < 0.6:
                current = rng.randrange(kinds)
            writes.append({"split": "train", "meta": {"lit": {"kind": current}}})
        cases.append({"kind": "selection", "pseed": rng.randrange(1 << 30),
                      "hist": {"fmt": fmt, "comp": "", "eps": rng.choice([1, 2, 3]),
                               "sessions": [{"kind": "root", "reopen": False, "writes": writes}]}})
    n_real = 6 if tier == "quick" else 60
    for k in range(n_real):
        cases.append({"kind": "real-multi", "fmt": ["fb", "npz", "tfrec"][k % 3], "pseed": rng.randrange(1 << 30),
                      "writers": rng.randint(2, 4)})
    return cases


def order_problems(ids: list[int], model) -> list[str]:
    """ids of one (session, writer) must be increasing in seq; writers of a session in argument order."""
    by_id = {w.ident: w for w in model.writes}
    last_seq: dict = {}
    last_writer: dict = {}
    problems = []
    for ident in ids:
        write = by_id.get(ident)
        if write is None:
            continue
        key = (write.session, write.writer)
        if key in last_seq and write.seq < last_seq[key]:
            problems.append(f"id {ident} (session {write.session} writer {write.writer} seq {write.seq}) yielded "
                            f"after seq {last_seq[key]} of the same writer")
        last_seq[key] = write.seq
        if write.session in last_writer and write.writer < last_writer[write.session]:
            problems.append(f"writer {write.writer} of multi-writer session {write.session} yielded after writer "
                            f"{last_writer[write.session]} (argument order broken)")
        last_writer[write.session] = max(last_writer.get(write.session, -1), write.writer)
    return problems[:3]


def run_case(case: dict) -> dict:
    if case.get("kind") == "real-multi":
        return run_real_multi(case)
    if case.get("kind") == "selection":
        return run_selection(case)
    from sedpack.io import Dataset
    hist = case["hist"]
    fmt, comp = hist["fmt"], hist["comp"]
    rng = random.Random(case["pseed"])
    work = common.new_workdir("c03")
    violations: list[dict] = []
    obs: Counter = Counter()
    sigs = []
    try:
        dataset, model, failed = _iter.build(work / "ds", hist)
        if failed:
            return {"sig": "aborted", "nontrivial": False, "obs": {},
                    "violations": [{"key": "session-raised", "msg": failed[0].exc}]}
        obs["multi_writer_sessions"] += sum(1 for s in hist["sessions"] if s["kind"] == "multi")
        ifaces = readers.interfaces_for(fmt, comp)
        for split in model.splits():
            n_shards = len(_iter.shard_paths(dataset, split))
            reference = None
            ref_label = None
            for k in range(case["passes"]):
                iface = rng.choice(ifaces)
                par = rng.choice(sorted({1, 2, 3, n_shards, n_shards + 1, n_shards + 2}))
                if rng.random() < 0.8:
                    perturb = {"gate": rng.choice(["reverse", "reverse", "random", "middle", "inorder"]),
                               "seed": rng.randrange(1 << 30)}
                else:
                    perturb = {"delay": rng.randrange(1 << 30)}
                handle = dataset if rng.random() < 0.5 else Dataset(dataset.path)
                label = f"{iface} par={par} {perturb}"
                if rng.random() < 0.3:
                    # what an earlier *shuffled* pass on the same handle leaves behind must not reach this one
                    other = rng.choice(ifaces)
                    try:
                        readers.read(handle, other, split, shuffle=rng.choice([2, 5, 1000]), repeat=False)
                        obs["shuffled_passes_before_ordered_ones"] += 1
                        label += f" after-shuffled-{other}-pass-on-{'kept' if handle is dataset else 'reopened'}-handle"
                    except Exception as exc:  # pylint: disable=broad-exception-caught
                        violations.append({"key": f"pass-raised/{other}", "msg": f"shuffled pass: {type(exc).__name__}: {exc}"[:300]})
                try:
                    ids, problems, observation = _iter.run_pass(handle, fmt, iface, split, work, shuffle=0, par=par,
                                                                process=False, perturb=perturb)
                except Exception as exc:  # pylint: disable=broad-exception-caught
                    violations.append({"key": f"pass-raised/{iface}", "msg": f"{label}: {type(exc).__name__}: {exc}"[:400]})
                    continue
                obs["passes"] += 1
                obs["gated_passes"] += observation.get("gated", 0)
                if observation.get("gated"):
                    order = observation["release_order"]
                    obs["out_of_order_releases"] += observation["out_of_order_releases"]
                    if len(order) >= 2 and any(b < a for a, b in zip(order, order[1:])):
                        obs["reversed_completion_orders"] += 1
                for problem in order_problems(ids, model):
                    violations.append({"key": f"write-order-broken/{iface}",
                                       "msg": f"{fmt} split={split} {label} ({n_shards} shards): {problem}"
                                              + (f"; release order {observation.get('release_order')}" if observation.get("gated") else "")})
                for problem in problems:
                    violations.append({"key": f"example-integrity/{iface}", "msg": problem})
                if reference is None:
                    reference, ref_label = ids, label
                else:
                    obs["sequence_comparisons"] += 1
                    if ids != reference:
                        first = next((i for i, (a, b) in enumerate(zip(ids, reference)) if a != b), min(len(ids), len(reference)))
                        violations.append({"key": f"nondeterministic-order/{iface}",
                                           "msg": f"{fmt}/{comp or 'none'} split={split} ({n_shards} shards): pass [{label}] "
                                                  f"differs from pass [{ref_label}] at position {first}: "
                                                  f"{ids[first:first + 4]} vs {reference[first:first + 4]}"
                                                  + (f"; release order {observation.get('release_order')}" if observation.get("gated") else "")})
                    if n_shards >= 2:
                        sigs.append([fmt, len(hist["sessions"]), iface,
                                     "p1" if par == 1 else "p<S" if par < n_shards else "p>=S",
                                     common.stable_hash(observation.get("release_order", perturb))])
        # successive passes of a repeating unshuffled stream are passes too: each must equal the one-pass sequence
        import itertools
        for split in model.splits():
            one_pass, _ = dsmod.ids_of(readers.read(dataset, "sync", split, shuffle=0, repeat=False))
            n_shards = len(_iter.shard_paths(dataset, split))
            for iface in rng.sample(ifaces, min(2, len(ifaces))):
                par = rng.choice(sorted({n_shards + 1, n_shards + 2, 2 * n_shards + 1, 16}))
                kwargs = {"file_parallelism": par} if "file_parallelism" in readers.ACCEPTS[iface] else {}
                try:
                    ids, _ = dsmod.ids_of(readers.read(dataset, iface, split, shuffle=0, repeat=True,
                                                       limit=3 * len(one_pass), **kwargs))
                except Exception as exc:  # pylint: disable=broad-exception-caught
                    violations.append({"key": f"pass-raised/{iface}", "msg": f"repeating stream: {type(exc).__name__}: {exc}"[:300]})
                    continue
                obs["repeating_stream_checks"] += 1
                if ids != list(itertools.islice(itertools.cycle(one_pass), len(ids))):
                    violations.append({"key": f"later-pass-differs-from-first/{iface}",
                                       "msg": f"{fmt} split={split} ({n_shards} shards) par={par}: a later pass of the unshuffled "
                                              f"repeating stream is not the one-pass sequence: {ids[:12]}..."})
        return {"sigs": sigs, "sig": None, "nontrivial": bool(sigs), "violations": violations, "obs": dict(obs),
                "sample": {"fmt": fmt, "sessions": [[s["kind"], s.get("subdir")] for s in hist["sessions"]]}}
    finally:
        common.rm(work)


def run_selection(case: dict) -> dict:
    """Unshuffled passes restricted by shards / shard_filter / custom_metadata_type_limit: what is yielded must
    still be in write order (a subsequence of the full pass) and the same on every pass and handle."""
    from sedpack.io import Dataset
    hist = case["hist"]
    fmt = hist["fmt"]
    rng = random.Random(case["pseed"])
    work = common.new_workdir("c03s")
    violations: list[dict] = []
    obs: Counter = Counter()
    sigs = []
    try:
        dataset, model, failed = _iter.build(work / "ds", hist)
        if failed:
            return {"sig": "aborted", "nontrivial": False, "obs": {},
                    "violations": [{"key": "session-raised", "msg": failed[0].exc}]}
        full, _ = dsmod.ids_of(readers.read(dataset, "sync", "train", shuffle=0, repeat=False))
        position = {ident: k for k, ident in enumerate(full)}
        n_shards = len(_iter.shard_paths(dataset, "train"))
        present_kind = hist["sessions"][0]["writes"][-1]["meta"]["lit"]["kind"]     # selects at least one shard
        option_sets = [("limit", {"custom_metadata_type_limit": rng.choice([1, 2, 3])}),
                       ("shards", {"shards": rng.randint(1, max(1, n_shards))}),
                       ("filter", {"shard_filter": lambda info: info.custom_metadata.get("kind") == present_kind}),
                       ("limit+shards", {"custom_metadata_type_limit": 2, "shards": max(1, n_shards - 1)})]
        for name, options in option_sets:
            reference = None
            for iface in readers.interfaces_for(fmt, ""):
                if any(key not in readers.ACCEPTS[iface] for key in options):
                    continue
                for handle_name, handle in (("kept", dataset), ("reopened", Dataset(dataset.path))):
                    kwargs = dict(options)
                    if "file_parallelism" in readers.ACCEPTS[iface]:
                        kwargs["file_parallelism"] = rng.choice([1, 2, 3])
                    label = f"{fmt} {iface} {name}={ {k: v for k, v in options.items() if k != 'shard_filter'} } {handle_name} handle"
                    try:
                        ids, _ = dsmod.ids_of(readers.read(handle, iface, "train", shuffle=0, repeat=False, **kwargs))
                    except Exception as exc:  # pylint: disable=broad-exception-caught
                        violations.append({"key": f"pass-raised/{iface}", "msg": f"{label}: {type(exc).__name__}: {exc}"[:300]})
                        continue
                    obs["passes"] += 1
                    obs["selection_passes"] += 1
                    places = [position.get(i, -1) for i in ids]
                    if any(b <= a for a, b in zip(places, places[1:])):
                        violations.append({"key": f"selection-breaks-write-order/{name}/{iface}",
                                           "msg": f"{label} ({n_shards} shards): yielded positions {places[:16]} of the full "
                                                  f"unshuffled pass, not increasing"})
                    if reference is None:
                        reference = ids
                    else:
                        obs["sequence_comparisons"] += 1
                        if ids != reference:
                            violations.append({"key": f"nondeterministic-order/{iface}",
                                               "msg": f"{label}: {ids[:8]} differs from the first pass with the same "
                                                      f"options {reference[:8]}"})
                    sigs.append(["selection", fmt, name, iface, handle_name])
        return {"sigs": sigs, "sig": None, "nontrivial": bool(sigs), "violations": violations, "obs": dict(obs),
                "sample": {"fmt": fmt, "selection": True, "shards": n_shards}}
    finally:
        common.rm(work)


def run_real_multi(case: dict) -> dict:
    """A real-process multi-writer call (fresh TensorFlow-op-free process) where earlier arguments are the
    slowest writers; afterwards every unshuffled interface must yield writers in argument order."""
    from sedpack.io import Dataset
    fmt = case["fmt"]
    rng = random.Random(case["pseed"])
    work = common.new_workdir("c03m")
    violations: list[dict] = []
    obs: Counter = Counter()
    try:
        root = work / "ds"
        n_writers = case["writers"]
        writers = [[{"split": "train"} for _ in range(rng.randint(2, 5))] for _ in range(n_writers)]
        delays = {str(w): [0.25 * (n_writers - 1 - w), 0.0] for w in range(n_writers)}   # first argument slowest
        hist = {"fmt": fmt, "comp": "", "eps": 2, "sessions": [
            {"kind": "multi", "writers": writers, "single_process": False, "delays": delays}]}
        spec = work / "hist.json"
        spec.write_text(json.dumps({"root": str(root), "hist": hist}))
        proc = subprocess.run([common.PY, "-m", "rtmon.session_runner", str(spec), str(work / "out.json")],
                              cwd=str(common.VERIF), env=dict(os.environ, PYTHONPATH=str(common.VERIF)),
                              capture_output=True, text=True, timeout=300, check=False)
        if not (work / "out.json").is_file():
            return {"sig": "runner-failed", "nontrivial": False, "violations": [], "obs": {},
                    "inconclusive": [f"session runner failed: {proc.stderr[-500:]}"]}
        out = json.loads((work / "out.json").read_text())
        if out.get("exc"):
            violations.append({"key": "multi-writer-raised", "msg": out["exc"]})
            return {"sig": ["real-multi", fmt], "nontrivial": True, "violations": violations, "obs": dict(obs)}
        obs["multi_writer_sessions"] += 1
        obs["real_process_sessions"] += 1
        returned = [r["writer"] for r in out["returns"]]
        if returned != list(range(n_writers)):
            violations.append({"key": "return-values-not-in-argument-order", "msg": f"{returned}"})
        ends = [r["t_end"] for r in out["returns"]]
        if any(b < a for a, b in zip(ends, ends[1:])):
            obs["writers_finished_out_of_argument_order"] += 1
        want = [dsmod.make_id("train", 0, w, k) for w in range(n_writers) for k in range(len(writers[w]))]
        dataset = Dataset(root)
        for iface in readers.interfaces_for(fmt, ""):
            kwargs = {"file_parallelism": 2} if "file_parallelism" in readers.ACCEPTS[iface] else {}
            ids, _ = dsmod.ids_of(readers.read(dataset, iface, "train", shuffle=0, repeat=False, **kwargs))
            obs["passes"] += 1
            obs["sequence_comparisons"] += 1
            if ids != want:
                violations.append({"key": f"multi-writer-argument-order-broken/{iface}",
                                   "msg": f"{fmt}: writers finished in order {sorted(range(n_writers), key=lambda w: ends[w])}; "
                                          f"iteration yields writers {[dsmod.split_id(i)[2] for i in ids]}"})
        obs["gated_passes"] += 0
        return {"sig": ["real-multi", fmt, n_writers], "nontrivial": True, "violations": violations, "obs": dict(obs),
                "sample": {"real_multi": fmt, "writers": n_writers, "finish_times": ends}}
    finally:
        common.rm(work)
