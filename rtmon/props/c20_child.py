"""Another release of the library, in a fresh interpreter: `sedpack.__version__` is set before `sedpack.io` is
imported, so that every default derived from it is that release's.  It (a) opens a dataset the parent wrote with
the real version and (b) writes a dataset of its own through the ordinary API.

usage: python -m rtmon.props.c20_child <version> <dataset-to-open> <dataset-to-write> <out.json>
"""
from __future__ import annotations

import json
import os
import sys
import warnings

os.environ.setdefault("TF_CPP_MIN_LOG_LEVEL", "3")
warnings.filterwarnings("ignore")


def main() -> None:
    version, to_open, to_write, out_path = sys.argv[1:5]
    import sedpack
    sedpack.__version__ = version
    from pathlib import Path
    from sedpack.io import Dataset
    from rtmon import ds as dsmod
    out: dict = {"version": version}
    try:
        Dataset(to_open)
        out["open"] = "loaded"
    except Exception as exc:  # pylint: disable=broad-exception-caught
        out["open"] = f"refused {type(exc).__name__}: {str(exc)[:160]}"
    try:
        dataset = dsmod.create(Path(to_write), "npz", "", 2)
        with dataset.filler() as filler:
            for k in range(3):
                filler.write_example(values=dsmod.example(dsmod.make_id("train", 0, 0, k)), split="train")
        out["write"] = "ok"
    except Exception as exc:  # pylint: disable=broad-exception-caught
        out["write"] = f"raised {type(exc).__name__}: {str(exc)[:160]}"
    json.dump(out, open(out_path, "w", encoding="utf-8"))
    os._exit(0)


if __name__ == "__main__":
    main()
