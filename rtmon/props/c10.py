"""C10 Shards respect the configured size.

Monitor: icontract postconditions on the filler's `write_example`/`close_shard` (online, on every call)
+ the independent auditor after every session: every recorded shard holds 1..eps examples (recorded and
decoded), and within one (session, writer, split) every partial shard is either the last one written or
is followed by a shard with different metadata.  Shards are mapped to sessions through the ids they
contain, so the oracle states the property, not the implementation's roll-over rule.
"""
from __future__ import annotations

import random
from collections import Counter

from rtmon import common
from rtmon import audit as auditor
from rtmon import history as H
from rtmon.props import _hist

LEVEL = "exploration"
NEEDS_DEPS = True
WORKERS = 14
CASE_TIMEOUT = 300
REQUIRED_OBS = ["shards_audited", "full_shards", "partial_shards", "rollovers", "contract_evals"]
RULE = ("examples_per_shard in {1,2,3,4,5,7,16} x per-split counts {0,1,k*eps-1,k*eps,k*eps+1} x split "
        "interleavings x metadata-change positions x rejected writes placed at shard boundaries x 1..3 sessions "
        "(root and sub-directory fillers, multi-writer). Distinct = (format, eps, per-session per-split counts, "
        "metadata-change positions, rejected-write positions); non-trivial iff >=1 roll-over happened.")
ASSUMPTIONS = ["a write rejected by validation does not count as an example"]

METAS = [{"k": 1}, {"k": 2}, {"k": "a", "n": [1, 2]}, {"shape": [3, 4]}, {"shape": [3, 4], "k": 1}]


def gen_one(rng: random.Random, tier: str) -> dict:
    fmt = rng.choice(["fb", "npz", "tfrec"])
    comp = rng.choice(["", "LZ4"] if fmt == "fb" else ["", "ZIP"] if fmt == "npz" else ["", "GZIP"])
    eps = rng.choice([1, 2, 3, 4, 5, 7, 16])
    sessions = []
    with_meta = rng.random() < 0.5
    with_bad = rng.random() < 0.3
    for _ in range(rng.randint(1, 3)):
        splits = rng.sample(["train", "test", "holdout"], rng.randint(1, 3))
        if rng.random() < 0.15:
            writers = [H.gen_session_writes(rng, eps, splits) for _ in range(rng.randint(1, 3))]
            sessions.append({"kind": "multi", "writers": writers, "single_process": True})
            continue
        writes = []
        for split in splits:
            k = rng.choice([0, 1, 2, 3])
            count = max(0, k * eps + rng.choice([-1, 0, 1]))
            if k == 0:
                count = rng.choice([0, 1])
            writes += [{"split": split} for _ in range(count)]
        rng.shuffle(writes)
        if with_meta:
            current = None
            for write in writes:
                roll = rng.random()
                if roll < 0.25:
                    current = rng.choice(METAS)
                elif roll < 0.35:
                    current = None
                if current is not None:
                    write["meta"] = {"lit": current}
                    if "shape" in current:
                        write["meta"]["as_tuple"] = ["shape"]
        if with_bad and writes:
            # rejected writes right at shard boundaries (after k*eps accepted writes of that split)
            out, per_split = [], Counter()
            for write in writes:
                if per_split[write["split"]] % eps == 0 and rng.random() < 0.5:
                    bad = {"split": write["split"], "bad": {"kind": rng.choice(["shape", "rank"]),
                                                            "attr": rng.randrange(2)}}
                    if with_meta and rng.random() < 0.7:
                        bad["meta"] = {"lit": rng.choice(METAS)}
                        if "shape" in bad["meta"]["lit"]:
                            # same Python type as in the valid writes: a tuple and a list with equal items are
                            # different values for the caller but identical JSON; that ambiguity is not exercised
                            bad["meta"]["as_tuple"] = ["shape"]
                    out.append(bad)
                out.append(write)
                per_split[write["split"]] += 1
            writes = out
        kind = "root" if rng.random() < 0.7 else "subdir"
        session = {"kind": kind, "writes": writes, "reopen": rng.random() < 0.3}
        if kind == "subdir":
            session["subdir"] = rng.choice(["p", "p/q"])
        sessions.append(session)
    return {"fmt": fmt, "comp": comp, "eps": eps, "sessions": sessions}


def gen_cases(tier: str, seed: int) -> list[dict]:
    rng = random.Random(seed * 1019 + 10)
    n = 400 if tier == "quick" else 8000
    return [{"hist": gen_one(rng, tier)} for _ in range(n)]


def worker_init() -> None:
    from rtmon.monitors import contracts
    contracts.attach({"write_example", "Shard.write"})


def signature(hist: dict) -> list:
    sig = [hist["fmt"], hist["eps"]]
    for session in hist["sessions"]:
        if session["kind"] == "multi":
            sig.append(["multi", [sorted(Counter(w["split"] for w in ws).items()) for ws in session["writers"]]])
            continue
        changes = [i for i, w in enumerate(session["writes"]) if "meta" in w and (
            i == 0 or session["writes"][i - 1].get("meta") != w.get("meta"))]
        bads = [i for i, w in enumerate(session["writes"]) if w.get("bad")]
        sig.append([session["kind"], sorted(Counter(w["split"] for w in session["writes"]).items()),
                    changes, bads])
    return sig


def run_case(case: dict) -> dict:
    from rtmon.monitors import contracts
    contracts.reset()
    hist = case["hist"]
    work = common.new_workdir("c10")
    violations: list[dict] = []
    obs: Counter = Counter()
    try:
        root = work / "ds"

        def after(k, dataset, model):
            session = model.sessions[k]
            if not session.completed:
                violations.append({"key": "session-raised", "msg": f"session {k} raised {session.exc}"})
                return
            if k == len(hist["sessions"]) - 1:
                report = auditor.audit(root, check_digests=False)
                for key, msg in report.problems:
                    if key in ("shard-count", "shard-undecodable", "listed-shard-missing"):
                        violations.append({"key": f"audit/{key}", "msg": msg})
                _hist.oracle_c10(report, model, hist["eps"], violations, obs)

        model = H.run_history(root, hist, after_session=after)
        for write in model.writes:
            if not write.accepted and not write.bad:
                violations.append({"key": "valid-write-rejected",
                                   "msg": f"valid write #{write.seq} of session {write.session} raised {write.exc}"})
        evals, failures = contracts.snapshot()
        for failure in failures:
            violations.append({"key": f"contract/{failure['contract']}", "msg": failure["msg"]})
        obs["contract_evals"] = evals.get("write_example", 0) + evals.get("close_shard", 0)
        obs["rejected_writes"] = sum(1 for w in model.writes if not w.accepted)
        return {"sig": signature(hist), "nontrivial": obs["rollovers"] > 0, "violations": violations,
                "obs": dict(obs),
                "sample": {"fmt": hist["fmt"], "eps": hist["eps"],
                           "sessions": [[s["kind"], len(s.get("writes", s.get("writers", [])))]
                                        for s in hist["sessions"]],
                           "shards_full_partial": [obs["full_shards"], obs["partial_shards"]]}}
    finally:
        common.rm(work)
