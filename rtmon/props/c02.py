"""C02 Exactly-once delivery: one pass yields precisely the split's examples.

Monitor: multiset oracle on self-identifying examples.  Worker completion orders are *forced* by the FIFO
gate on every pipeline that reads shards with open()+read() (Python thread pool, lazy pool, asyncio
executor, the Rust threads, the generator-backed tf.data path) and perturbed by seeded delays elsewhere
(npz, TFRecord).  A non-idempotent per-example transformation (id -> 2*id+1) reveals 0/1/2 applications
in the output itself.  Overlapping passes (two or three live iterators consumed alternately) are included.
"""
from __future__ import annotations

import itertools
import random
from collections import Counter

from rtmon import common
from rtmon import readers
from rtmon.props import _iter

LEVEL = "exploration"
NEEDS_RUST = True
WORKERS = 14
CASE_TIMEOUT = 420
QUIESCENCE_SCOPE = "process"   # helpers are polling feeders only
QUIESCENCE_AFTER = 60.0
REQUIRED_OBS = ["passes", "gated_passes", "examples_checked", "process_record_passes", "overlapping_pass_groups",
                "reiterated_pipeline_passes"]
RULE = ("datasets from generated histories (1..3 splits, 1..many shards, short last shards, nested lists, "
        "multi-writer) x interface x shuffle in {0,1,2,3,N-1,N,N+1,10N} x file_parallelism in {1,2,S-1,S,S+1,2S+3} x "
        "schedule (FIFO-gate policy+seed, or delay seed). Distinct = (format, geometry class, interface, shuffle class, "
        "parallelism class, perturbation); non-trivial iff the split has >=2 shards or shuffle>0.")
ASSUMPTIONS = ["TensorFlow's internal threads are perturbed (delays), not controlled",
               "FIFO gate applies to fb (all interfaces) and npz-async; other cells use delay injection"]


def gen_cases(tier: str, seed: int) -> list[dict]:
    rng = random.Random(seed * 1061 + 2)
    n = 120 if tier == "quick" else 1500
    return [{"hist": _iter.gen_dataset_history(rng, formats=["fb", "fb", "npz", "tfrec"] if k % 2 else None),
             "pseed": rng.randrange(1 << 30), "passes": 10 if tier == "quick" else 16} for k in range(n)]


def run_case(case: dict) -> dict:
    hist = case["hist"]
    fmt, comp = hist["fmt"], hist["comp"]
    rng = random.Random(case["pseed"])
    work = common.new_workdir("c02")
    violations: list[dict] = []
    obs: Counter = Counter()
    sigs = []
    orders = set()
    try:
        dataset, model, failed = _iter.build(work / "ds", hist)
        if failed:
            return {"sig": "aborted", "nontrivial": False, "obs": {},
                    "violations": [{"key": "session-raised", "msg": failed[0].exc}]}
        splits = model.splits()
        ifaces = readers.interfaces_for(fmt, comp)
        for _ in range(case["passes"]):
            split = rng.choice(splits)
            want = _iter.expected_counter(model, split)
            n_examples = sum(want.values())
            n_shards = len(_iter.shard_paths(dataset, split))
            iface = rng.choice(ifaces)
            shuffle = rng.choice(_iter.shuffle_values(n_examples))
            par = rng.choice(_iter.parallelism_values(n_shards))
            process = rng.random() < 0.3
            if iface != "tfds" and rng.random() < 0.12:
                process = "none-some"
            if rng.random() < 0.75:
                perturb = {"gate": rng.choice(["random", "reverse", "middle", "inorder"]),
                           "seed": rng.randrange(1 << 30)}
            else:
                perturb = {"delay": rng.randrange(1 << 30)}
            if rng.random() < 0.04 and n_shards > 4:
                # a consumer that stalls for a few seconds while the workers have nothing left to do
                # (more shards than the pipeline keeps in flight)
                par = 1
                shuffle = max(shuffle, 2)
                iface = "conc" if (fmt == "tfrec" or rng.random() < 0.7) else "tfds"   # the lazy-pool paths
                if iface == "tfds" and process == "none-some":
                    process = False       # tf.data.map cannot return None
                perturb = {"stall": 2.6}
                obs["stalled_consumer_passes"] += 1
            label = f"{iface} split={split} shuffle={shuffle} par={par} process={process} {perturb}"
            try:
                ids, problems, observation = _iter.run_pass(dataset, fmt, iface, split, work, shuffle=shuffle,
                                                            par=par, process=process, perturb=perturb)
            except Exception as exc:  # pylint: disable=broad-exception-caught
                violations.append({"key": f"pass-raised/{iface}", "msg": f"{label}: {type(exc).__name__}: {str(exc)[:300]}"})
                continue
            obs["passes"] += 1
            obs["gated_passes"] += observation.get("gated", 0)
            obs["examples_checked"] += len(ids)
            obs["process_record_passes"] += int(bool(process))
            obs["delay_injections"] += observation.get("delay_injections", 0)
            if observation.get("gated"):
                orders.add(tuple(observation["release_order"]))
                obs["out_of_order_releases"] += observation["out_of_order_releases"]
                obs["max_ready"] = max(obs["max_ready"], observation["max_ready"])
            got = Counter(ids)
            if process == "none-some":
                expected_none = sum(c for i, c in want.items() if i % 3 == 0)
                obs["none_returning_transformations"] += 1
                if observation.get("none_results") != expected_none:
                    violations.append({"key": f"none-results-lost/{iface}{'-shuffled' if shuffle else ''}",
                                       "msg": f"{fmt} {label}: the transformation returns None for {expected_none} "
                                              f"examples, the pass yielded {observation.get('none_results')} None results"})
                want = Counter({i: c for i, c in want.items() if i % 3 != 0})
            if got != want:
                missing = list((want - got).elements())
                extra = list((got - want).elements())
                kind = ("duplicated" if extra and set(extra) <= set(want) else
                        "foreign" if extra else "lost")
                violations.append({"key": f"{kind}-examples/{iface}{'-shuffled' if shuffle else ''}",
                                   "msg": f"{fmt}/{comp or 'none'} {label} ({n_shards} shards, {n_examples} examples): "
                                          f"missing {missing[:5]} ({len(missing)}), unexpected {extra[:5]} ({len(extra)})"
                                          + (f" release order {observation.get('release_order')}" if observation.get("gated") else "")})
            for problem in problems:
                violations.append({"key": f"example-integrity/{iface}", "msg": f"{label}: {problem}"})
            sig = [fmt, "1shard" if n_shards == 1 else "fewer-shards-than-par" if n_shards < par else "many",
                   iface, "s0" if shuffle == 0 else "s<N" if shuffle < n_examples else "s>=N",
                   "p1" if par == 1 else "p<S" if par < n_shards else "p=S" if par == n_shards else "p>S",
                   perturb.get("gate", "delay")]
            if n_shards >= 2 or shuffle > 0:
                sigs.append(sig)
        # ---- overlapping passes: several live iterators consumed alternately
        overlap_ifaces = [i for i in ifaces if not (i == "conc" and fmt == "tfrec")]
        # (conc, tfrec) keeps a tf.device scope open inside its suspended generator: interleaving two such
        # generators ends in TensorFlow's "Exiting device scope without proper scope nesting" on the unchanged
        # tree; the statement speaks of one pass, so that cell is left out of the overlap extension.
        for iface in rng.sample(overlap_ifaces, min(2, len(overlap_ifaces))):
            chosen = [rng.choice(splits) for _ in range(3)]
            results = overlapping(dataset, iface, chosen, rng)
            obs["overlapping_pass_groups"] += 1
            for split, outcome in zip(chosen, results):
                want = _iter.expected_counter(model, split)
                if isinstance(outcome, str):
                    violations.append({"key": f"overlapping-pass-raised/{iface}", "msg": f"{chosen}: {outcome}"})
                elif Counter(outcome) != want:
                    violations.append({"key": f"overlapping-passes-interfere/{iface}",
                                       "msg": f"{fmt} three interleaved passes over {chosen}: pass over {split} missing "
                                              f"{list((want - Counter(outcome)).elements())[:4]} unexpected "
                                              f"{list((Counter(outcome) - want).elements())[:4]}"})
        # ---- a re-iterable pipeline object (the tf.data.Dataset returned by as_tfdataset) is iterated several
        # times, as a training loop does with its validation data: full pass, abandoned pass, full pass
        if "tfds" in ifaces:
            split = rng.choice(splits)
            want = _iter.expected_counter(model, split)
            shuffle = rng.choice([0, 3, 3])
            par = rng.choice([1, 2, 3])
            label = f"{fmt} as_tfdataset split={split} shuffle={shuffle} file_parallelism={par} repeat=False"
            try:
                pipeline = dataset.as_tfdataset(split, batch_size=0, shuffle=shuffle, repeat=False, file_parallelism=par)
                for round_no in range(3):
                    if round_no == 1 and fmt == "tfrec":
                        continue      # TensorFlow's own pipeline end to end; its iterators are not abandoned here
                    iterator = iter(pipeline.as_numpy_iterator())
                    if round_no == 1:
                        list(itertools.islice(iterator, max(1, sum(want.values()) // 2)))    # abandoned mid-way
                        del iterator
                        continue
                    got = Counter(int(ex["id"]) for ex in iterator)
                    obs["reiterated_pipeline_passes"] += 1
                    if got != want:
                        violations.append({"key": f"reiterated-pipeline-pass-differs/tfds{'-shuffled' if shuffle else ''}",
                                           "msg": f"{label}: iteration {round_no + 1} of the same pipeline object delivered "
                                                  f"{sum(got.values())} of {sum(want.values())} examples (missing "
                                                  f"{list((want - got).elements())[:4]}, unexpected {list((got - want).elements())[:4]})"})
            except Exception as exc:  # pylint: disable=broad-exception-caught
                violations.append({"key": "reiterated-pipeline-raised/tfds", "msg": f"{label}: {type(exc).__name__}: {str(exc)[:300]}"})
        # ---- two threads share ONE Dataset object and start a pass over the same split at the same moment
        import threading
        from sedpack.io import Dataset
        from sedpack.io.dataset_base import DatasetBase
        shared = Dataset(dataset.path)
        split = rng.choice(splits)
        want = _iter.expected_counter(model, split)
        barrier = threading.Barrier(2)
        outcomes: dict = {}
        original_walk = DatasetBase._shard_info_iterator  # pylint: disable=protected-access

        def slow_walk(self, shard_list_info):
            import time as _time
            _time.sleep(0.004)           # widen the window in which the metadata tree is being walked
            yield from original_walk(self, shard_list_info)

        def reader_thread(name: str, iface: str) -> None:
            try:
                barrier.wait()
                kwargs = {"file_parallelism": 2} if "file_parallelism" in readers.ACCEPTS[iface] else {}
                outcomes[name] = Counter(dsmod_ids(readers.read(shared, iface, split, shuffle=0, repeat=False, **kwargs)))
            except BaseException as exc:  # pylint: disable=broad-exception-caught
                outcomes[name] = f"{type(exc).__name__}: {str(exc)[:160]}"

        thread_ifaces = [i for i in ifaces if i in ("sync", "conc") and not (i == "conc" and fmt == "tfrec")]
        DatasetBase._shard_info_iterator = slow_walk  # pylint: disable=protected-access
        try:
            threads = [threading.Thread(target=reader_thread, args=(f"t{k}", thread_ifaces[k % len(thread_ifaces)]))
                       for k in range(2)]
            for thread in threads:
                thread.start()
            for thread in threads:
                thread.join()
        finally:
            DatasetBase._shard_info_iterator = original_walk  # pylint: disable=protected-access
        obs["shared_handle_thread_pairs"] += 1
        for name, outcome in outcomes.items():
            if outcome != want:
                violations.append({"key": "threads-sharing-a-handle-interfere",
                                   "msg": f"{fmt} split {split}: thread {name} got "
                                          f"{outcome if isinstance(outcome, str) else sum(outcome.values())} "
                                          f"instead of {sum(want.values())} examples"})
        return {"sigs": sigs, "sig": None, "nontrivial": bool(sigs), "violations": violations,
                "obs": {**obs, "completion_orders": [list(o) for o in orders]},
                "sample": {"fmt": fmt, "splits": {s: sum(model.expected_counter(s).values()) for s in splits},
                           "some_release_orders": [list(o) for o in list(orders)[:3]]}}
    finally:
        common.rm(work)


def dsmod_ids(examples) -> list[int]:
    return [int(ex["id"]) for ex in examples]


def overlapping(dataset, iface: str, splits: list[str], rng: random.Random):
    """A starts, B starts, both are consumed alternately, A finishes, then C starts while B is mid-way."""
    outputs: list = [[], [], []]
    closers = []
    try:
        kwargs = {"file_parallelism": 2} if "file_parallelism" in readers.ACCEPTS[iface] else {}
        it_a, close_a = readers.open_stream(dataset, iface, splits[0], shuffle=0, repeat=False, **kwargs)
        closers.append(close_a)
        it_b, close_b = readers.open_stream(dataset, iface, splits[1], shuffle=rng.choice([0, 3]), repeat=False, **kwargs)
        closers.append(close_b)
        first_a = next(it_a, None)            # A is really started before B (generators are lazy)
        if first_a is not None:
            outputs[0].append(int(first_a["id"]))
        first_b = next(it_b, None)
        if first_b is not None:
            outputs[1].append(int(first_b["id"]))
        for ex in it_a:                       # A runs to completion while B is open
            outputs[0].append(int(ex["id"]))
            if rng.random() < 0.5:
                nxt = next(it_b, None)
                if nxt is not None:
                    outputs[1].append(int(nxt["id"]))
        it_c, close_c = readers.open_stream(dataset, iface, splits[2], shuffle=0, repeat=False, **kwargs)
        closers.append(close_c)
        for ex_b, ex_c in itertools.zip_longest(it_b, it_c):
            if ex_b is not None:
                outputs[1].append(int(ex_b["id"]))
            if ex_c is not None:
                outputs[2].append(int(ex_c["id"]))
        return outputs
    except BaseException as exc:  # pylint: disable=broad-exception-caught
        if isinstance(exc, (KeyboardInterrupt, SystemExit)):
            raise
        return [f"{type(exc).__name__}: {str(exc)[:200]}"] * 3
    finally:
        for closer in closers:
            try:
                closer()
            except BaseException:  # pylint: disable=broad-exception-caught
                pass
