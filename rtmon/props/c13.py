"""C13 The lazy thread pool is correct under every thread interleaving.

Monitor: controlled scheduler (rtmon/monitors/sched.py) driving the *real* LazyPool at queue-operation
granularity: random walks, sticky walks, PCT-style priorities and a preemption-bounded exhaustive DFS for
tiny configurations.  Oracle per schedule: result multiset == inputs (full pass), prefix without
duplicates/foreign results (early exit), no state with an unfinished thread and none enabled (deadlock),
every worker finished after the context was left, pool reusable.  A second, uncontrolled stress mode
(real OS threads, injected delays, the orchestrator's quiescence oracle) covers refactorings away from
`queue.Queue`.
"""
from __future__ import annotations

import random
import time
from collections import Counter

LEVEL = "exploration"
NEEDS_SEDPACK = True
WORKERS = 14
CASE_TIMEOUT = 240
QUIESCENCE_SCOPE = "process"   # helpers are polling feeders only
QUIESCENCE_AFTER = 20.0
REQUIRED_OBS = ["schedules", "distinct_schedules", "stress_runs", "dfs_schedules"]
RULE = ("schedules of consumer + T worker threads at queue-operation granularity for T in 1..5, n in 0..2T+6 and "
        "'infinite', early exit at every position, failing input at every position, pool reuse after a full or an "
        "abandoned pass; policies: uniform random, sticky random, PCT, preemption-bounded DFS (T<=2, n<=3). Distinct "
        "= hash of the schedule (sequence of scheduled threads) x (T, n, early, fail, reuse); non-trivial iff >=2 "
        "threads took >=1 step each.")
ASSUMPTIONS = ["the pool synchronises only through queue.Queue / time.sleep / Thread.start (checked: a run that "
               "blocks outside the shims is reported by the watchdog as inconclusive, and the uncontrolled stress "
               "mode still decides on real threads)"]


def gen_cases(tier: str, seed: int) -> list[dict]:
    rng = random.Random(seed * 1049 + 13)
    cases = []
    n_random = 40 if tier == "quick" else 1200
    per_case = 500 if tier == "quick" else 800
    for k in range(n_random):
        cases.append({"kind": "controlled", "policy": ["random", "sticky", "pct"][k % 3],
                      "seed": rng.randrange(1 << 30), "count": per_case})
    dfs_configs = [(1, 0), (1, 1), (1, 2), (1, 3), (2, 0), (2, 1), (2, 2), (2, 3)]
    for T, n in dfs_configs:
        for variant in ("full", "early", "fail", "fail-base"):
            cases.append({"kind": "dfs", "T": T, "n": n, "variant": variant,
                          "preemptions": 2 if tier == "quick" else 3,
                          "budget": 1500 if tier == "quick" else 40000})
    n_stress = 14 if tier == "quick" else 350
    for _ in range(n_stress):
        cases.append({"kind": "stress", "seed": rng.randrange(1 << 30), "count": 15})
    return cases


class Boom(Exception):
    pass


class BoomBase(BaseException):
    """A failure that does not derive from Exception (like asyncio.CancelledError or SystemExit)."""


FAIL_TYPES = {"exception": Boom, "base-exception": BoomBase, "system-exit": SystemExit}
FAILURES = (Boom, BoomBase, SystemExit)


def one_schedule(sched_mod, lp, policy, T: int, inputs, early, fail, reuse: str, fail_type: str = "exception"):
    """Run one schedule.  Returns (verdict dict, scheduler)."""
    sched = sched_mod.Scheduler(policy)
    STATE["sched"] = sched
    sched.local.tid = sched.register("consumer")
    out: list = []
    out2: list = []
    raised = None
    finite = isinstance(inputs, int)

    def source():
        if finite:
            yield from range(inputs)
        else:
            k = 0
            while True:
                yield k
                k += 1

    durations = STATE.get("durations") or {}

    def func(x):
        if x in durations:
            sched.sleep(sched.me(), durations[x])      # a slow read (virtual time), e.g. a fault met late
        if fail is not None and x == fail:
            raise FAIL_TYPES[fail_type](f"mapped function failed on input {x}")
        return x * 2 + 1

    def plain(x):
        return x * 2 + 1

    problems = []
    try:
        pool = lp.LazyPool(T)
        try:
            with pool:
                # the input is handed over as a generator, a range or a list (Sized inputs take other paths in
                # code that looks at len())
                given = source() if (not finite or STATE.get("input_kind", 0) == 0) else (
                    range(inputs) if STATE["input_kind"] == 1 else list(range(inputs)))
                pauses = STATE.get("pauses") or ()
                try:
                    for i, result in enumerate(pool.imap_unordered(func, given)):
                        out.append(result)
                        if early is not None and i + 1 >= early:
                            break
                        if i in pauses:
                            # the consumer pauses (virtual time): workers run dry and wait; nothing may be lost
                            sched.sleep(sched.me(), pauses[i])
                except FAILURES as exc:
                    if reuse != "same-context":
                        raise
                    raised = str(exc)          # the caller handles the failure and goes on using the pool
                if reuse == "same-context":
                    if early is not None:
                        pool.finish_and_reset()    # an abandoned iteration is ended explicitly before the next one
                    out2 = list(pool.imap_unordered(plain, range(T + 2)))
        except FAILURES as exc:
            raised = str(exc)
        sched_mod.join_workers(sched)
        first_threads = len(sched.threads)
        if reuse == "after-exit":
            with pool:
                out2 = list(pool.imap_unordered(plain, range(T + 2)))
            sched_mod.join_workers(sched)
        del first_threads
    except sched_mod.Abort:
        problems.append(("deadlock", f"no enabled thread: {sched.deadlock}"))
    except AssertionError as exc:
        problems.append(("assertion-in-pool", repr(exc)))
    if not problems:
        expected_all = Counter(x * 2 + 1 for x in range(inputs)) if finite else None
        got = Counter(out)
        if any(c > 1 for c in got.values()):
            problems.append(("duplicate-result", f"{[k for k, c in got.items() if c > 1][:4]}"))
        if finite and (got - expected_all):
            problems.append(("foreign-result", f"{list((got - expected_all).elements())[:4]}"))
        if not finite and any((r - 1) % 2 or r < 0 for r in out):
            problems.append(("foreign-result", f"{out[:5]}"))
        if early is None and fail is None and finite and got != expected_all:
            problems.append(("lost-result", f"T={T} n={inputs}: missing {list((expected_all - got).elements())[:5]}"))
        if early is not None and fail is None and len(out) != min(early, inputs if finite else early):
            problems.append(("early-exit-count", f"took {len(out)} of {early}"))
        if fail is not None and finite and fail < inputs and early is None and raised is None \
                and got == expected_all - Counter([fail * 2 + 1]):
            problems.append(("failure-swallowed", "pass ended normally without the failing input's result"))
        if reuse in ("after-exit", "same-context"):
            if Counter(out2) != Counter(x * 2 + 1 for x in range(T + 2)):
                problems.append(("reuse-broken", f"second pass on the same pool returned {sorted(out2)}"))
        unfinished = [t["name"] for t in sched.threads.values() if t["name"] != "consumer" and t["state"] != "F"]
        if unfinished:
            problems.append(("worker-not-terminated", f"{unfinished}"))
    return {"problems": problems, "raised": raised, "out": len(out)}, sched


STATE: dict = {}
_INSTALLED: dict = {}


def ensure_installed():
    import sedpack.io.itertools.lazy_pool as lp
    from rtmon.monitors import sched as sched_mod
    if not _INSTALLED:
        _INSTALLED["uninstall"] = sched_mod.install(lp, lambda: STATE["sched"])
    return sched_mod, lp


def ensure_uninstalled():
    if _INSTALLED:
        _INSTALLED.pop("uninstall")()


def config_from(rng: random.Random):
    T = rng.randint(1, 5)
    roll = rng.random()
    if roll < 0.12:
        n = None          # infinite input, needs an early exit
    else:
        n = rng.choice([0, 1, T - 1, T, T + 1, 2 * T, 2 * T + 1, 2 * T + 2, 2 * T + 3, 2 * T + 4, 2 * T + 6])
        n = max(0, n)
    early = None
    fail = None
    kind = rng.random()
    if n is None:
        early = rng.randint(1, 3 * T + 4)
    elif kind < 0.3 and n > 0:
        early = rng.randint(1, n)
    elif kind < 0.5 and n > 0:
        fail = rng.randrange(n)
    reuse = rng.choice(["none", "none", "after-exit", "same-context"])
    return T, n, early, fail, reuse


def run_case(case: dict) -> dict:
    if case["kind"] == "controlled":
        return run_controlled(case)
    if case["kind"] == "dfs":
        return run_dfs(case)
    return run_stress(case)


def make_policy(sched_mod, name: str, seed: int):
    if name == "random":
        return sched_mod.RandomPolicy(seed)
    if name == "sticky":
        return sched_mod.StickyRandomPolicy(seed)
    return sched_mod.PCTPolicy(seed)


def run_controlled(case: dict) -> dict:
    sched_mod, lp = ensure_installed()
    rng = random.Random(case["seed"])
    violations, sigs = [], []
    obs: Counter = Counter()
    hashes = set()
    configs = set()
    sample = None
    depth_seen = [0]
    for k in range(case["count"]):
        T, n, early, fail, reuse = config_from(rng)
        seed = rng.randrange(1 << 30)
        policy = make_policy(sched_mod, case["policy"], seed)
        fail_type = rng.choice(sorted(FAIL_TYPES)) if fail is not None else "exception"
        STATE["pauses"] = ({rng.randrange(0, 12): rng.choice([0.5, 3.0, 30.0, 600.0]) for _ in range(rng.randint(1, 2))}
                           if rng.random() < 0.25 else None)
        obs["schedules_with_consumer_pauses"] += int(bool(STATE["pauses"]))
        STATE["durations"] = ({rng.randrange(0, 14): rng.choice([0.2, 0.7, 1.5, 20.0]) for _ in range(rng.randint(1, 3))}
                              if rng.random() < 0.3 else None)
        if STATE["durations"] is not None and fail is not None and rng.random() < 0.7:
            STATE["durations"][fail] = rng.choice([0.7, 1.5, 20.0])       # the failing call is the slow one
        obs["schedules_with_slow_calls"] += int(bool(STATE["durations"]))
        STATE["input_kind"] = rng.randrange(3)
        obs[f"input_kind:{('generator', 'range', 'list')[STATE['input_kind']]}"] += 1
        verdict, sched = one_schedule(sched_mod, lp, policy, T, n if n is not None else "inf", early, fail, reuse,
                                      fail_type)
        obs["schedules"] += 1
        obs["scheduling_steps"] += sched.steps
        active = sum(1 for t in sched.threads.values() if t["steps"] > 0)
        schedule_hash = hash((tuple(sched.trace), T, n, early, fail, reuse))
        hashes.add(schedule_hash)
        configs.add((T, n if n is not None else -1, early is not None, fail is not None, reuse))
        if active >= 2:
            sigs.append(schedule_hash)
        for label, depth in sched.max_depth.items():
            depth_seen[0] = max(depth_seen[0], depth)
        if fail is not None:
            obs["failing_function_runs"] += 1
            obs["failure_reached_consumer"] += int(verdict["raised"] is not None)
        for key, msg in verdict["problems"]:
            obs[f"problem:{key}"] += 1
            if len(violations) < 12:
                violations.append({"key": f"{key}{'/mapped-function-fails' if fail is not None else ''}"
                                          f"{'/early-exit' if early is not None else ''}",
                                   "msg": f"T={T} n={n} early={early} fail={fail}({fail_type}) reuse={reuse} policy={case['policy']} "
                                          f"seed={seed}: {msg}",
                                   "detail": {"choices": [c[0] for c in sched.choices][:400]}})
        if sample is None:
            sample = {"T": T, "n": n, "early": early, "fail": fail, "reuse": reuse,
                      "schedule": sched.trace[:40], "steps": sched.steps}
    obs["distinct_schedules"] = len(hashes)
    return {"sigs": sigs, "sig": None, "nontrivial": bool(sigs), "violations": violations,
            "obs": {**obs, "configurations": [list(c) for c in configs], "max_queue_depth": depth_seen[0]},
            "sample": sample}


def run_dfs(case: dict) -> dict:
    sched_mod, lp = ensure_installed()
    T, n, variant = case["T"], case["n"], case["variant"]
    early = max(1, n // 2) if variant == "early" and n > 0 else None
    fail = n - 1 if variant.startswith("fail") and n > 0 else None
    fail_type = "base-exception" if variant == "fail-base" else "exception"
    violations, sigs = [], []
    obs: Counter = Counter()
    stack = [[]]
    explored = 0
    exhausted = True
    hashes = set()
    while stack:
        if explored >= case["budget"]:
            exhausted = False
            break
        prefix = stack.pop()
        policy = sched_mod.ReplayPolicy(prefix)
        STATE["input_kind"] = (T + n) % 3
        STATE["pauses"] = None
        STATE["durations"] = None
        verdict, sched = one_schedule(sched_mod, lp, policy, T, n, early, fail, "after-exit" if n <= 1 else "none",
                                      fail_type)
        explored += 1
        hashes.add(tuple(sched.trace))
        if sum(1 for t in sched.threads.values() if t["steps"] > 0) >= 2:
            sigs.append(hash((tuple(sched.trace), T, n, variant)))
        for key, msg in verdict["problems"]:
            obs[f"problem:{key}"] += 1
            if len(violations) < 6:
                violations.append({"key": f"{key}{'/mapped-function-fails' if fail is not None else ''}"
                                          f"{'/early-exit' if early is not None else ''}",
                                   "msg": f"DFS T={T} n={n} variant={variant}: {msg}",
                                   "detail": {"choices": [c[0] for c in sched.choices]}})
        # children: deviate from this run at every position beyond the prefix, within the preemption bound
        used = 0
        for pos, (index, options, me_index) in enumerate(sched.choices):
            if pos < len(prefix):
                if me_index >= 0 and index != me_index:
                    used += 1
                continue
            for alt in range(options):
                if alt == index:
                    continue
                cost = used + (1 if (me_index >= 0 and alt != me_index) else 0)
                if cost <= case["preemptions"]:
                    stack.append([c[0] for c in sched.choices[:pos]] + [alt])
            if me_index >= 0 and index != me_index:
                used += 1
    obs["dfs_schedules"] = explored
    obs["schedules"] = explored
    obs["distinct_schedules"] = len(hashes)
    obs["dfs_exhausted_within_bound"] = int(exhausted)
    return {"sigs": sigs, "sig": None, "nontrivial": bool(sigs), "violations": violations, "obs": dict(obs),
            "sample": {"dfs": [T, n, variant], "schedules": explored, "exhausted_within_preemption_bound": exhausted}}


def run_stress(case: dict) -> dict:
    """Uncontrolled mode: real threads, random delays in the mapped function and in the consumer.  A hang
    is decided by the orchestrator's quiescence oracle (see on_timeout)."""
    ensure_uninstalled()
    import threading
    import sedpack.io.itertools.lazy_pool as lp
    rng = random.Random(case["seed"])
    violations = []
    obs: Counter = Counter()
    for _ in range(case["count"]):
        T, n, early, fail, reuse = config_from(rng)
        if n is None:
            n = 10 ** 9
        delays = [rng.choice([0, 0, 0.0005, 0.002]) for _ in range(16)]
        fail_type = rng.choice(sorted(FAIL_TYPES))
        before = threading.active_count()

        def func(x):
            time.sleep(delays[x % 16])
            if fail is not None and x == fail:
                raise FAIL_TYPES[fail_type]("boom")
            return x * 2 + 1

        out = []
        raised = False
        STATE["stress"] = {"T": T, "n": n, "early": early, "fail": fail}
        try:
            with lp.LazyPool(T) as pool:
                given = range(n) if rng.random() < 0.5 or n > 10 ** 6 else iter(range(n))
                for i, result in enumerate(pool.imap_unordered(func, given)):
                    out.append(result)
                    if rng.random() < 0.2:
                        time.sleep(0.001)
                    if early is not None and i + 1 >= early:
                        break
        except FAILURES:
            raised = True
        deadline = time.monotonic() + 20
        while threading.active_count() > before and time.monotonic() < deadline:
            time.sleep(0.002)
        obs["stress_runs"] += 1
        if threading.active_count() > before:
            violations.append({"key": "worker-not-terminated/stress",
                               "msg": f"T={T} n={n} early={early} fail={fail}: {threading.active_count() - before} "
                                      f"worker thread(s) still alive 20 s after the context was left"})
        got = Counter(out)
        if any(c > 1 for c in got.values()):
            violations.append({"key": "duplicate-result/stress", "msg": f"T={T} n={n}"})
        if early is None and fail is None and got != Counter(x * 2 + 1 for x in range(n)):
            violations.append({"key": "lost-result/stress", "msg": f"T={T} n={n}: got {len(out)} results"})
        if fail is not None:
            obs["failing_function_runs"] += 1
            obs["failure_reached_consumer"] += int(raised)
    return {"sig": ["stress", case["seed"]], "nontrivial": True, "violations": violations, "obs": dict(obs),
            "sample": {"stress": case["seed"]}}


def on_timeout(case: dict, record: dict) -> dict | None:
    diag = record.get("diag", {})
    if diag.get("verdict") == "quiescent":
        return {"violation": "deadlock/stress" if case["kind"] == "stress" else "deadlock/uncontrolled-primitive",
                "msg": f"all {diag.get('threads')} threads sleeping, no CPU, no context switches; stacks:\n"
                       f"{diag.get('stacks', '')[-1500:]}"}
    return None
