"""C08 Continued writing is append-only.

Monitor: reference-model multiset oracle after every session of a generated history (what iteration
returns per split == everything accepted so far, payloads recomputed from the ids), sessions of an
allowed kind must not raise, and `Dataset.create` on an existing dataset must be refused leaving every
byte of the tree unchanged (tree digest before/after).
"""
from __future__ import annotations

import random
from collections import Counter

from rtmon import common
from rtmon import audit as auditor
from rtmon import history as H
from rtmon.props import _hist

LEVEL = "exploration"
WORKERS = 14
CASE_TIMEOUT = 300
REQUIRED_OBS = ["multiset_checks", "examples_read", "refused_creates"]
RULE = ("random histories of 1..6 sessions biased towards reused and nested sub-directories, alternating splits, "
        "reopen vs keep handle, all formats. Distinct = history shape; non-trivial iff >=2 sessions.")
ASSUMPTIONS = ["one live handle at a time", "histories contain only valid writes"]


def gen_cases(tier: str, seed: int) -> list[dict]:
    rng = random.Random(seed * 1013 + 8)
    n = 150 if tier == "quick" else 3000
    cases = []
    for k in range(n):
        hist = H.gen_history(rng, max_sessions=5 if tier == "quick" else 7, subdir_bias=0.75)
        if len(hist["sessions"]) < 2 and k % 3:
            hist["sessions"].append(dict(hist["sessions"][0], reopen=bool(k % 2)))
        cases.append({"hist": hist, "create_after": rng.randrange(len(hist["sessions"]))})
    return cases


def run_case(case: dict) -> dict:
    hist = case["hist"]
    work = common.new_workdir("c08")
    violations: list[dict] = []
    obs: Counter = Counter()
    try:
        root = work / "ds"

        def after(k, dataset, model):
            session = model.sessions[k]
            if not session.completed:
                violations.append({"key": f"session-raised/{session.kind}{'-reused' if reused(hist, k) else ''}",
                                   "msg": f"session {k} ({session.kind} {session.subdir}) raised {session.exc}"})
            report = auditor.audit(root, check_digests=False)
            _hist.oracle_c08(root, model, k if session.completed else k - 1, violations, obs, report,
                             only_missing=not session.completed, kept_handle=dataset)
            if k == case["create_after"]:
                _hist.oracle_create_refused(root, hist, violations, obs)

        model = H.run_history(root, hist, after_session=after)
        _hist.oracle_create_refused(root, hist, violations, obs)
        obs["sessions_run"] = len(model.sessions)
        obs["reused_subdir_sessions"] = sum(1 for k in range(len(model.sessions)) if reused(hist, k))
        return {"sig": H.history_shape(hist), "nontrivial": len(hist["sessions"]) >= 2,
                "violations": violations, "obs": dict(obs),
                "sample": {"fmt": hist["fmt"], "eps": hist["eps"],
                           "sessions": [[s["kind"], s.get("subdir"), bool(s.get("reopen"))]
                                        for s in hist["sessions"]]}}
    finally:
        common.rm(work)


def reused(hist: dict, k: int) -> bool:
    """Session k writes into a sub-directory that an earlier session used for one of the same splits."""
    session = hist["sessions"][k]
    if session["kind"] != "subdir":
        return False
    mine = {w["split"] for w in session["writes"]}
    for earlier in hist["sessions"][:k]:
        if earlier["kind"] == "subdir" and earlier["subdir"] == session["subdir"] and \
                mine & {w["split"] for w in earlier["writes"]}:
            return True
    return False
