"""C08 Continued writing is append-only.

Monitor: reference-model multiset oracle after every session of a generated history (what iteration
returns per split == everything accepted so far, payloads recomputed from the ids), sessions of an
allowed kind must not raise, and `Dataset.create` on an existing dataset must be refused leaving every
byte of the tree unchanged (tree digest before/after).
"""
from __future__ import annotations

import random
from collections import Counter

from rtmon import common
from rtmon import audit as auditor
from rtmon import history as H
from rtmon.props import _hist

LEVEL = "exploration"
WORKERS = 14
CASE_TIMEOUT = 300
REQUIRED_OBS = ["multiset_checks", "examples_read", "refused_creates", "completed_sessions_after_a_failed_one",
                "sessions_after_chdir"]
RULE = ("random histories of 1..6 sessions biased towards reused and nested sub-directories, alternating splits, "
        "reopen vs keep handle, all formats. Distinct = history shape; non-trivial iff >=2 sessions.")
ASSUMPTIONS = ["one live handle at a time", "histories contain only valid writes",
               "what a failed session (the caller's with-body raises) leaves behind is not specified; the completed "
               "sessions after it are checked against the state found before them"]


def gen_cases(tier: str, seed: int) -> list[dict]:
    rng = random.Random(seed * 1013 + 8)
    n = 150 if tier == "quick" else 3000
    cases = []
    for k in range(n):
        hist = H.gen_history(rng, max_sessions=5 if tier == "quick" else 7, subdir_bias=0.75)
        if len(hist["sessions"]) < 2 and k % 3:
            hist["sessions"].append(dict(hist["sessions"][0], reopen=bool(k % 2)))
        cases.append({"hist": hist, "create_after": rng.randrange(len(hist["sessions"]))})
    # a session whose body fails (the caller's own code raises) sits between completed sessions: whatever it leaves
    # behind, the completed session after it must add exactly its own examples
    for k in range(30 if tier == "quick" else 400):
        eps = rng.choice([1, 2, 3, 4])
        dirs = [None, "part", "a/b"]
        cases.append({"kind": "failed-between", "fmt": ["fb", "npz", "tfrec"][k % 3], "eps": eps,
                      "dir_failed": rng.choice(dirs), "same_dir": rng.random() < 0.7,
                      "failed_writes": rng.choice([1, eps, eps + 1, 2 * eps, 2 * eps + 1, 3 * eps + 1]),
                      "reopen_after_failure": rng.random() < 0.5, "seed": rng.randrange(1 << 30)})
    # a dataset named by a path relative to the working directory, a kept handle, and a chdir between sessions
    for k in range(12 if tier == "quick" else 120):
        cases.append({"kind": "relative-root", "fmt": ["fb", "npz", "tfrec"][k % 3], "eps": rng.choice([1, 2, 3]),
                      "spelling": rng.choice(["data/ds", "./data/ds", "data/../data/ds"]),
                      "subdir": rng.choice([None, "part"]), "seed": rng.randrange(1 << 30)})
    return cases


class CallerFailure(RuntimeError):
    """Raised by the harness inside a filler's with-block (stands for a failure of the caller's own code)."""


def run_failed_between(case: dict) -> dict:
    from pathlib import Path
    from sedpack.io import Dataset, DatasetFiller
    from rtmon import ds as dsmod
    rng = random.Random(case["seed"])
    work = common.new_workdir("c08f")
    violations: list[dict] = []
    obs: Counter = Counter()
    fmt, eps = case["fmt"], case["eps"]
    try:
        root = work / "ds"
        dataset = dsmod.create(root, fmt, "", eps)
        counters: Counter = Counter()

        def filler_for(handle, directory):
            return handle.filler() if directory is None else DatasetFiller(handle, relative_path_from_split=Path(directory))

        def session(handle, directory, number, count, fail=False):
            written = []
            try:
                with filler_for(handle, directory) as filler:
                    for _ in range(count):
                        split = rng.choice(["train", "train", "test"])
                        ident = dsmod.make_id(split, number, 0, counters[number])
                        counters[number] += 1
                        filler.write_example(values=dsmod.example(ident), split=split)
                        written.append((split, ident))
                    if fail:
                        raise CallerFailure("the caller's loop body failed")
            except CallerFailure:
                pass
            return written

        def state():
            fresh = Dataset(root)
            out = {}
            for split in ("train", "test"):
                if split in fresh._dataset_info.splits:  # pylint: disable=protected-access
                    ids, problems = dsmod.ids_of(fresh.as_numpy_iterator(split=split, shuffle=0, repeat=False))
                    for problem in problems:
                        violations.append({"key": "payload-changed", "msg": problem})
                    out[split] = Counter(ids)
                else:
                    out[split] = Counter()
            return out

        directory = case["dir_failed"]
        other = directory if case["same_dir"] else rng.choice([d for d in (None, "part", "a/b", "other") if d != directory])
        first = session(dataset, directory, 0, rng.randint(1, 2 * eps + 1))
        committed = Counter()
        before_failure = state()
        for split in ("train", "test"):
            want = Counter(i for s, i in first if s == split)
            if before_failure[split] != want:
                violations.append({"key": "not-append-only", "msg": f"first session: split {split} holds "
                                                                    f"{sum(before_failure[split].values())} of {sum(want.values())}"})
        session(dataset, directory, 1, case["failed_writes"], fail=True)
        obs["failed_sessions"] += 1
        after_failure = state()
        for split in ("train", "test"):
            if before_failure[split] - after_failure[split]:
                violations.append({"key": "committed-examples-lost-by-failed-session",
                                   "msg": f"{fmt} split {split}: {sum((before_failure[split] - after_failure[split]).values())} "
                                          f"examples of the completed first session are gone after a failed session"})
        if case["reopen_after_failure"]:
            dataset = Dataset(root)
        current = after_failure
        for number, target in ((2, other), (3, directory)):
            written = session(dataset, target, number, rng.randint(1, 2 * eps + 1))
            now = state()
            obs["completed_sessions_after_a_failed_one"] += 1
            obs["multiset_checks"] += 2
            for split in ("train", "test"):
                want = current[split] + Counter(i for s, i in written if s == split)
                obs["examples_read"] += sum(now[split].values())
                if now[split] != want:
                    added = now[split] - current[split]
                    violations.append({"key": "session-after-failed-one-adds-more-than-it-wrote"
                                       if (now[split] - want) else "not-append-only",
                                       "msg": f"{fmt} eps={eps} failed session ({case['failed_writes']} writes) in "
                                              f"{directory or 'the root'}, then a completed session {number} into "
                                              f"{target or 'the root'} ({'reopened' if case['reopen_after_failure'] else 'kept'} handle): split "
                                              f"{split} gained {sum(added.values())} examples, the session wrote "
                                              f"{sum(1 for s, _ in written if s == split)}; unexpected "
                                              f"{list((now[split] - want).elements())[:4]} missing {list((want - now[split]).elements())[:4]}"})
            current = now
        return {"sig": ["failed-between", fmt, eps, str(directory), case["same_dir"], case["failed_writes"] > eps,
                        case["reopen_after_failure"]],
                "nontrivial": True, "violations": violations, "obs": dict(obs),
                "sample": {"fmt": fmt, "failed_between": True, "dir": directory, "failed_writes": case["failed_writes"]}}
    finally:
        common.rm(work)


def run_relative_root(case: dict) -> dict:
    import os
    from pathlib import Path
    from sedpack.io import Dataset, DatasetFiller
    from rtmon import ds as dsmod
    rng = random.Random(case["seed"])
    work = common.new_workdir("c08r")
    violations: list[dict] = []
    obs: Counter = Counter()
    fmt, eps = case["fmt"], case["eps"]
    home = os.getcwd()
    try:
        project = work / "project"
        (project / "data").mkdir(parents=True)
        (project / "elsewhere" / "deeper").mkdir(parents=True)
        os.chdir(project)
        dataset = dsmod.create(Path(case["spelling"]), fmt, "", eps)
        root = project / "data" / "ds"
        want: dict = {"train": Counter(), "test": Counter()}
        places = [project / "elsewhere", project / "elsewhere" / "deeper", work, project]
        for number in range(4):
            if number:
                os.chdir(places[number % len(places)] if number < 3 else rng.choice(places))
            cm = dataset.filler() if case["subdir"] is None else DatasetFiller(dataset, relative_path_from_split=Path(case["subdir"]))
            with cm as filler:
                for seq in range(rng.randint(1, 2 * eps + 1)):
                    split = rng.choice(["train", "train", "test"])
                    ident = dsmod.make_id(split, number, 0, seq)
                    filler.write_example(values=dsmod.example(ident), split=split)
                    want[split][ident] += 1
            obs["sessions_after_chdir"] += int(number > 0)
            for name, handle in (("kept", dataset), ("fresh-absolute", Dataset(root))):
                for split in ("train", "test"):
                    if not want[split]:
                        continue
                    try:
                        ids, _ = dsmod.ids_of(handle.as_numpy_iterator(split=split, shuffle=0, repeat=False))
                    except Exception as exc:  # pylint: disable=broad-exception-caught
                        violations.append({"key": f"relative-root/iteration-raised/{name}", "msg": f"{type(exc).__name__}: {str(exc)[:200]}"})
                        continue
                    obs["multiset_checks"] += 1
                    obs["examples_read"] += len(ids)
                    if Counter(ids) != want[split]:
                        violations.append({"key": f"relative-root/not-append-only/{name}-handle",
                                           "msg": f"{fmt} dataset created as {case['spelling']!r}, session {number} after chdir to "
                                                  f"{os.getcwd()}: the {name} handle iterates {len(ids)} examples of split {split}, "
                                                  f"{sum(want[split].values())} were written"})
        stray = [str(p.relative_to(work)) for p in work.rglob("*") if p.is_file() and root not in p.parents]
        if stray:
            violations.append({"key": "relative-root/files-written-outside-the-dataset",
                               "msg": f"{fmt} dataset created as {case['spelling']!r}: files appeared outside {root}: {stray[:5]}"})
        return {"sig": ["relative-root", fmt, eps, case["spelling"], str(case["subdir"])], "nontrivial": True,
                "violations": violations, "obs": dict(obs),
                "sample": {"fmt": fmt, "relative_root": case["spelling"]}}
    finally:
        os.chdir(home)
        common.rm(work)


def run_case(case: dict) -> dict:
    if case.get("kind") == "failed-between":
        return run_failed_between(case)
    if case.get("kind") == "relative-root":
        return run_relative_root(case)
    hist = case["hist"]
    work = common.new_workdir("c08")
    violations: list[dict] = []
    obs: Counter = Counter()
    try:
        root = work / "ds"

        def after(k, dataset, model):
            session = model.sessions[k]
            if not session.completed:
                violations.append({"key": f"session-raised/{session.kind}{'-reused' if reused(hist, k) else ''}",
                                   "msg": f"session {k} ({session.kind} {session.subdir}) raised {session.exc}"})
            report = auditor.audit(root, check_digests=False)
            _hist.oracle_c08(root, model, k if session.completed else k - 1, violations, obs, report,
                             only_missing=not session.completed, kept_handle=dataset)
            if k == case["create_after"]:
                _hist.oracle_create_refused(root, hist, violations, obs)

        model = H.run_history(root, hist, after_session=after)
        _hist.oracle_create_refused(root, hist, violations, obs)
        obs["sessions_run"] = len(model.sessions)
        obs["reused_subdir_sessions"] = sum(1 for k in range(len(model.sessions)) if reused(hist, k))
        return {"sig": H.history_shape(hist), "nontrivial": len(hist["sessions"]) >= 2,
                "violations": violations, "obs": dict(obs),
                "sample": {"fmt": hist["fmt"], "eps": hist["eps"],
                           "sessions": [[s["kind"], s.get("subdir"), bool(s.get("reopen"))]
                                        for s in hist["sessions"]]}}
    finally:
        common.rm(work)


def reused(hist: dict, k: int) -> bool:
    """Session k writes into a sub-directory that an earlier session used for one of the same splits."""
    session = hist["sessions"][k]
    if session["kind"] != "subdir":
        return False
    mine = {w["split"] for w in session["writes"]}
    for earlier in hist["sessions"][:k]:
        if earlier["kind"] == "subdir" and earlier["subdir"] == session["subdir"] and \
                mine & {w["split"] for w in earlier["writes"]}:
            return True
    return False
