"""Traced child of the C17 check: performs load / check / iterate / write on crafted datasets.

Run as `strace ... python -m rtmon.props.c17_child <spec.json> <out.json>`; delimits every case with marker
stat() calls on /RTMON/<label>/BEGIN|END so that the parent can attribute file-system calls to cases.
"""
from __future__ import annotations

import json
import os
import sys
import warnings


def marker(label: str, which: str) -> None:
    try:
        os.stat(f"/RTMON/{label}/{which}")
    except OSError:
        pass


def main() -> None:
    warnings.filterwarnings("ignore")
    spec = json.load(open(sys.argv[1], encoding="utf-8"))
    if spec.get("rust"):
        from rtmon import rustbuild
        rustbuild.load_built_extension()
    from pathlib import Path
    from sedpack.io import Dataset, DatasetFiller
    from rtmon import readers, ds as dsmod
    os.chdir(spec["cwd"])
    # python-level audit hook (second, cheaper observer; also sees opens that fail before the syscall)
    audit_log: list = []
    current = {"label": None}

    def hook(event, args):
        if current["label"] is not None and event in ("open", "os.mkdir", "os.rename", "os.remove", "os.listdir",
                                                      "os.scandir"):
            try:
                audit_log.append([current["label"], event, os.fspath(args[0]) if args and args[0] is not None else ""])
            except TypeError:
                pass

    sys.addaudithook(hook)
    results = {}
    for case in spec["cases"]:
        label = case["label"]
        outcome: dict = {}
        root = case["root"]
        current["label"] = label
        marker(label, "BEGIN")
        try:
            if case["kind"] == "metadata":
                try:
                    dataset = Dataset(root)
                    outcome["load"] = "ok"
                except BaseException as exc:  # pylint: disable=broad-exception-caught
                    dataset = None
                    outcome["load"] = f"raised {type(exc).__name__}: {str(exc)[:140]}"
                if dataset is not None:
                    try:
                        dataset.check(show_progressbar=False)
                        outcome["check"] = "ok"
                    except BaseException as exc:  # pylint: disable=broad-exception-caught
                        outcome["check"] = f"raised {type(exc).__name__}: {str(exc)[:140]}"
                    for iface in case["ifaces"]:
                        try:
                            got = readers.read(dataset, iface, case["split"], shuffle=0, repeat=False)
                            outcome[f"iter:{iface}"] = f"ok {len(got)}"
                        except BaseException as exc:  # pylint: disable=broad-exception-caught
                            outcome[f"iter:{iface}"] = f"raised {type(exc).__name__}: {str(exc)[:140]}"
            elif case["kind"] == "relative-root":
                # the dataset is opened by a path relative to the working directory, which then changes to a
                # directory holding another dataset under the same relative name
                zone = os.path.dirname(root)
                try:
                    os.chdir(zone)
                    dataset = Dataset(os.path.basename(root))
                    outcome["load"] = "ok"
                    os.chdir(os.path.join(zone, "outside"))
                    try:
                        dataset.check(show_progressbar=False)
                        outcome["check"] = "ok"
                    except BaseException as exc:  # pylint: disable=broad-exception-caught
                        outcome["check"] = f"raised {type(exc).__name__}: {str(exc)[:140]}"
                    for iface in case["ifaces"]:
                        try:
                            got = readers.read(dataset, iface, case["split"], shuffle=0, repeat=False)
                            outcome[f"iter:{iface}"] = f"ok {len(got)}"
                        except BaseException as exc:  # pylint: disable=broad-exception-caught
                            outcome[f"iter:{iface}"] = f"raised {type(exc).__name__}: {str(exc)[:140]}"
                    try:
                        with DatasetFiller(dataset, relative_path_from_split=Path("w")) as filler:
                            for k in range(3):
                                filler.write_example(values=dsmod.example(dsmod.make_id("train", 9, 0, k)), split="train")
                        outcome["write"] = "ok"
                    except BaseException as exc:  # pylint: disable=broad-exception-caught
                        outcome["write"] = f"raised {type(exc).__name__}: {str(exc)[:140]}"
                except BaseException as exc:  # pylint: disable=broad-exception-caught
                    outcome["load"] = f"raised {type(exc).__name__}: {str(exc)[:140]}"
                finally:
                    os.chdir(spec["cwd"])
            elif case["kind"] == "writer":
                try:
                    dataset = Dataset(root)
                    with DatasetFiller(dataset, relative_path_from_split=Path(case["subdir"])) as filler:
                        for k in range(3):
                            filler.write_example(values=dsmod.example(dsmod.make_id("train", 9, 0, k)), split="train")
                    outcome["write"] = "ok"
                except BaseException as exc:  # pylint: disable=broad-exception-caught
                    outcome["write"] = f"raised {type(exc).__name__}: {str(exc)[:140]}"
        finally:
            marker(label, "END")
            current["label"] = None
        results[label] = outcome
    json.dump({"results": results, "audit": audit_log}, open(sys.argv[2], "w", encoding="utf-8"))
    os._exit(0)


if __name__ == "__main__":
    main()
