"""C07 Unreadable shards surface as errors: never a hang, never silent truncation.

Monitor: for a dataset with a deleted / emptied / truncated / garbage shard the outcome of a pass through
each interface is classified as raised / normal end / blocked.  Premise: the format's single-shard decoder
(the independent auditor's) rejects the damaged file, otherwise the case is vacuous.  "Normal end while
the damaged shard's examples are missing" is silent truncation; "blocked" is decided by the orchestrator's
quiescence oracle on observed thread states (all threads sleeping, no CPU, no context switches, consumer
stack inside a blocking wait), not by a deadline.
"""
from __future__ import annotations

import os
import random
from collections import Counter

from rtmon import common

LEVEL = "fault_enumeration"
NEEDS_RUST = True
WORKERS = 14
CASE_TIMEOUT = 150
QUIESCENCE_SCOPE = "process"   # helpers are polling feeders only
QUIESCENCE_AFTER = 10.0
REQUIRED_OBS = ["premise_held", "outcome:raised"]
RULE = ("datasets (fb/npz/tfrec x compression, 3..6 shards) x damaged shard position (first/middle/last/two) x "
        "damage (deleted, emptied, truncated, garbage, header-corrupt) x interface (sync, concurrent, async, Rust, "
        "tf.data native and generator-backed) x shuffle on/off x parallelism x delay seed. Distinct = (format, "
        "compression, interface, shuffle class, parallelism, position, damage); non-trivial iff the premise held "
        "(the single-shard decoder rejects the damaged file).")
ASSUMPTIONS = ["a reader that tolerates the damage and still returns the shard's examples is not a violation",
               "hang verdicts come from the quiescence oracle; a watchdog firing on a busy process is inconclusive"]

DAMAGES = ("deleted", "emptied", "truncated", "garbage", "header")


def gen_cases(tier: str, seed: int) -> list[dict]:
    from rtmon import readers, ds as dsmod
    rng = random.Random(seed * 1051 + 7)
    cases = []
    combos = []
    for fmt in dsmod.FORMATS:
        for comp in dsmod.COMPRESSIONS[fmt]:
            for iface in readers.interfaces_for(fmt, comp):
                for shuffle in (0, 5):
                    combos.append((fmt, comp, iface, shuffle))
    reps = 2 if tier == "quick" else 30
    for fmt, comp, iface, shuffle in combos:
        for _ in range(reps):
            n_shards = rng.randint(3, 6)
            position = rng.choice(["first", "middle", "last", "two"])
            cases.append({"fmt": fmt, "comp": comp, "iface": iface, "shuffle": shuffle,
                          "n_shards": n_shards, "eps": rng.choice([1, 2, 3]), "position": position,
                          "damage": rng.choice(DAMAGES), "par": rng.choice([1, 2, 3, n_shards, n_shards + 2]),
                          "dseed": rng.choice([None, rng.randrange(1 << 30)]), "vseed": rng.randrange(1 << 30)})
    # the lazy pool behind shuffled concurrent reading, under the controlled scheduler, with a failing
    # (often slow, i.e. late) read: the consumer must get the error — never a normal end, never a deadlock
    for _ in range(8 if tier == "quick" else 200):
        cases.append({"kind": "pool", "policy": rng.choice(["random", "sticky", "pct"]), "seed": rng.randrange(1 << 30),
                      "count": 400})
    if tier == "quick":
        rng.shuffle(cases)
    return cases


def damage_file(path, kind: str, rng: random.Random) -> None:
    data = path.read_bytes()
    if kind == "deleted":
        path.unlink()
    elif kind == "emptied":
        path.write_bytes(b"")
    elif kind == "truncated":
        path.write_bytes(data[:max(1, len(data) // 2)])
    elif kind == "garbage":
        path.write_bytes(rng.randbytes(max(16, len(data))))
    elif kind == "header":
        path.write_bytes(bytes(b ^ 0xFF for b in data[:12]) + data[12:])


def run_pool_case(case: dict) -> dict:
    from rtmon.props import c13
    sched_mod, lp = c13.ensure_installed()
    rng = random.Random(case["seed"])
    violations, obs = [], Counter()
    hashes = set()
    try:
        for _ in range(case["count"]):
            T = rng.randint(1, 5)
            n = rng.choice([1, T, T + 1, 2 * T + 1, 2 * T + 2, 2 * T + 3, 2 * T + 6])
            fail = rng.randrange(n)
            fail_type = rng.choice(sorted(c13.FAIL_TYPES))
            c13.STATE["input_kind"] = rng.randrange(3)
            c13.STATE["pauses"] = {rng.randrange(0, 10): rng.choice([0.5, 3.0, 30.0])} if rng.random() < 0.2 else None
            durations = {rng.randrange(0, n): rng.choice([0.2, 0.7, 1.5, 20.0]) for _ in range(rng.randint(0, 2))}
            if rng.random() < 0.6:
                durations[fail] = rng.choice([0.3, 0.7, 1.5, 20.0])
            c13.STATE["durations"] = durations
            policy = c13.make_policy(sched_mod, case["policy"], rng.randrange(1 << 30))
            verdict, sched = c13.one_schedule(sched_mod, lp, policy, T, n, None, fail, "none", fail_type)
            obs["lazy_pool_schedules"] += 1
            hashes.add(hash(tuple(sched.trace)))
            outcome = "raised" if verdict["raised"] is not None else "normal-end"
            for key, msg in verdict["problems"]:
                if key == "deadlock":
                    outcome = "blocked"
                    mapped = "hang/lazy-pool"
                elif key in ("failure-swallowed", "lost-result"):
                    mapped = "silent-truncation/lazy-pool"
                else:
                    mapped = f"lazy-pool/{key}"
                if len(violations) < 8:
                    violations.append({"key": mapped, "msg": f"T={T} n={n} failing input {fail} ({fail_type}), slow calls "
                                                              f"{durations}: {msg}"})
            if outcome == "normal-end" and not verdict["problems"]:
                violations.append({"key": "silent-truncation/lazy-pool",
                                   "msg": f"T={T} n={n} failing input {fail}: the pass ended normally"})
            obs[f"outcome:{outcome}"] += 1
    finally:
        c13.ensure_uninstalled()
    obs["premise_held"] = obs["lazy_pool_schedules"]
    return {"sig": ["lazy-pool", case["policy"], case["seed"]], "nontrivial": True, "violations": violations,
            "obs": {**obs, "distinct_lazy_pool_schedules": len(hashes)},
            "sample": {"lazy_pool_controlled": case["policy"], "schedules": obs["lazy_pool_schedules"]}}


def run_case(case: dict) -> dict:
    if case.get("kind") == "pool":
        return run_pool_case(case)
    from sedpack.io import Dataset
    from rtmon import audit as auditor, ds as dsmod, readers
    from rtmon.monitors import delays
    fmt, comp, iface = case["fmt"], case["comp"], case["iface"]
    rng = random.Random(case["vseed"])
    work = common.new_workdir("c07")
    violations: list[dict] = []
    obs: Counter = Counter()
    try:
        root = work / "ds"
        dataset = dsmod.create(root, fmt, comp, case["eps"])
        n = case["n_shards"] * case["eps"]
        ids = [dsmod.make_id("train", 0, 0, k) for k in range(n)]
        dsmod.write_simple(dataset, {"train": ids})
        shards = [root / s.file_infos[0].file_path for s in dataset.shard_info_iterator("train")]
        attrs = [a.model_dump() for a in dataset.dataset_structure.saved_data_description]
        shard_ids = [auditor.shard_ids(p, fmt, comp, attrs) for p in shards]
        positions = {"first": [0], "middle": [len(shards) // 2], "last": [len(shards) - 1],
                     "two": [0, len(shards) - 1]}[case["position"]]
        lost = set()
        premise = True
        for pos in positions:
            damage_file(shards[pos], case["damage"], rng)
            lost.update(shard_ids[pos])
            try:
                auditor.shard_ids(shards[pos], fmt, comp, attrs)
                premise = False          # the single-shard decoder accepts the damaged file: vacuous
            except BaseException:  # pylint: disable=broad-exception-caught
                pass
        obs["premise_held" if premise else "premise_failed"] += 1
        fresh = Dataset(root)
        kwargs = {}
        if "file_parallelism" in readers.ACCEPTS[iface]:
            kwargs["file_parallelism"] = case["par"]
        outcome = None
        # in some cases the fault is met late: the read of the damaged shard starts ~1 s after the others
        slow = {str(shards[pos]): 0.9 for pos in positions} if case["vseed"] % 7 == 0 else None
        obs["late_fault_cases"] += int(bool(slow))
        with delays.inject(case["dseed"], slow_paths=slow) as stats:
            try:
                examples = readers.read(fresh, iface, "train", shuffle=case["shuffle"], repeat=False, **kwargs)
                got, _ = dsmod.ids_of(examples)
                outcome = "normal-end"
            except BaseException as exc:  # pylint: disable=broad-exception-caught
                if isinstance(exc, (KeyboardInterrupt, SystemExit)):
                    raise
                outcome = "raised"
                obs[f"raised_by:{type(exc).__name__}"] += 1
        obs[f"outcome:{outcome}"] += 1
        obs["delay_injections"] += stats["sleeps"]
        if outcome == "normal-end":
            missing = lost - set(got)
            if missing and not premise:
                obs["vacuous_decoder_accepts_damaged_file"] += 1
            elif missing:
                violations.append({"key": f"silent-truncation/{iface}{'-shuffled' if case['shuffle'] else ''}",
                                   "msg": f"{fmt}/{comp or 'none'} {case['damage']} shard(s) {positions} of "
                                          f"{len(shards)}: the pass ended normally with {len(got)} of {n} examples, "
                                          f"{len(missing)} examples of the damaged shard silently skipped"})
            else:
                obs["damage_tolerated_all_examples_returned"] += 1
        sig = [fmt, comp, iface, bool(case["shuffle"]), case["par"], case["position"], case["damage"]]
        return {"sig": sig, "nontrivial": premise, "violations": violations, "obs": dict(obs),
                "sample": {"case": sig, "outcome": outcome, "premise": premise}}
    finally:
        common.rm(work)


def on_timeout(case: dict, record: dict) -> dict | None:
    diag = record.get("diag", {})
    if diag.get("verdict") == "quiescent":
        return {"violation": f"hang/{case['iface']}{'-shuffled' if case['shuffle'] else ''}",
                "msg": f"{case['fmt']}/{case['comp'] or 'none'} {case['damage']} shard {case['position']}: no result "
                       f"after {record.get('elapsed', 0):.0f}s and the process is quiescent (all {diag.get('threads')} "
                       f"threads sleeping, no CPU time, no context switches). Stacks:\n{diag.get('stacks', '')[-1800:]}"}
    return None
