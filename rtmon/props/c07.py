"""C07 Unreadable shards surface as errors: never a hang, never silent truncation.

Monitor: for a dataset with a deleted / emptied / truncated / garbage shard the outcome of a pass through
each interface is classified as raised / normal end / blocked.  Premise: the format's single-shard decoder
(the independent auditor's) rejects the damaged file, otherwise the case is vacuous.  "Normal end while
the damaged shard's examples are missing" is silent truncation; "blocked" is decided by the orchestrator's
quiescence oracle on observed thread states (all threads sleeping, no CPU, no context switches, consumer
stack inside a blocking wait), not by a deadline.
"""
from __future__ import annotations

import os
import random
from collections import Counter

from rtmon import common

LEVEL = "fault_enumeration"
NEEDS_RUST = True
WORKERS = 14
CASE_TIMEOUT = 150
QUIESCENCE_SCOPE = "process"   # helpers are polling feeders only
QUIESCENCE_AFTER = 10.0
REQUIRED_OBS = ["premise_held", "outcome:raised"]
RULE = ("datasets (fb/npz/tfrec x compression, 3..6 shards) x damaged shard position (first/middle/last/two) x "
        "damage (deleted, emptied, truncated, garbage, header-corrupt) x interface (sync, concurrent, async, Rust, "
        "tf.data native and generator-backed) x shuffle on/off x parallelism x delay seed. Distinct = (format, "
        "compression, interface, shuffle class, parallelism, position, damage); non-trivial iff the premise held "
        "(the single-shard decoder rejects the damaged file).")
ASSUMPTIONS = ["a reader that tolerates the damage and still returns the shard's examples is not a violation",
               "hang verdicts come from the quiescence oracle; a watchdog firing on a busy process is inconclusive"]

DAMAGES = ("deleted", "emptied", "truncated", "garbage", "header")


def gen_cases(tier: str, seed: int) -> list[dict]:
    from rtmon import readers, ds as dsmod
    rng = random.Random(seed * 1051 + 7)
    cases = []
    combos = []
    for fmt in dsmod.FORMATS:
        for comp in dsmod.COMPRESSIONS[fmt]:
            for iface in readers.interfaces_for(fmt, comp):
                for shuffle in (0, 5):
                    combos.append((fmt, comp, iface, shuffle))
    reps = 2 if tier == "quick" else 30
    for fmt, comp, iface, shuffle in combos:
        for _ in range(reps):
            n_shards = rng.randint(3, 6)
            position = rng.choice(["first", "middle", "last", "two"])
            cases.append({"fmt": fmt, "comp": comp, "iface": iface, "shuffle": shuffle,
                          "n_shards": n_shards, "eps": rng.choice([1, 2, 3]), "position": position,
                          "damage": rng.choice(DAMAGES), "par": rng.choice([1, 2, 3, n_shards, n_shards + 2]),
                          "dseed": rng.choice([None, rng.randrange(1 << 30)]), "vseed": rng.randrange(1 << 30)})
    if tier == "quick":
        rng.shuffle(cases)
    return cases


def damage_file(path, kind: str, rng: random.Random) -> None:
    data = path.read_bytes()
    if kind == "deleted":
        path.unlink()
    elif kind == "emptied":
        path.write_bytes(b"")
    elif kind == "truncated":
        path.write_bytes(data[:max(1, len(data) // 2)])
    elif kind == "garbage":
        path.write_bytes(rng.randbytes(max(16, len(data))))
    elif kind == "header":
        path.write_bytes(bytes(b ^ 0xFF for b in data[:12]) + data[12:])


def run_case(case: dict) -> dict:
    from sedpack.io import Dataset
    from rtmon import audit as auditor, ds as dsmod, readers
    from rtmon.monitors import delays
    fmt, comp, iface = case["fmt"], case["comp"], case["iface"]
    rng = random.Random(case["vseed"])
    work = common.new_workdir("c07")
    violations: list[dict] = []
    obs: Counter = Counter()
    try:
        root = work / "ds"
        dataset = dsmod.create(root, fmt, comp, case["eps"])
        n = case["n_shards"] * case["eps"]
        ids = [dsmod.make_id("train", 0, 0, k) for k in range(n)]
        dsmod.write_simple(dataset, {"train": ids})
        shards = [root / s.file_infos[0].file_path for s in dataset.shard_info_iterator("train")]
        attrs = [a.model_dump() for a in dataset.dataset_structure.saved_data_description]
        shard_ids = [auditor.shard_ids(p, fmt, comp, attrs) for p in shards]
        positions = {"first": [0], "middle": [len(shards) // 2], "last": [len(shards) - 1],
                     "two": [0, len(shards) - 1]}[case["position"]]
        lost = set()
        premise = True
        for pos in positions:
            damage_file(shards[pos], case["damage"], rng)
            lost.update(shard_ids[pos])
            try:
                auditor.shard_ids(shards[pos], fmt, comp, attrs)
                premise = False          # the single-shard decoder accepts the damaged file: vacuous
            except BaseException:  # pylint: disable=broad-exception-caught
                pass
        obs["premise_held" if premise else "premise_failed"] += 1
        fresh = Dataset(root)
        kwargs = {}
        if "file_parallelism" in readers.ACCEPTS[iface]:
            kwargs["file_parallelism"] = case["par"]
        outcome = None
        # in some cases the fault is met late: the read of the damaged shard starts ~1 s after the others
        slow = {str(shards[pos]): 0.9 for pos in positions} if case["vseed"] % 7 == 0 else None
        obs["late_fault_cases"] += int(bool(slow))
        with delays.inject(case["dseed"], slow_paths=slow) as stats:
            try:
                examples = readers.read(fresh, iface, "train", shuffle=case["shuffle"], repeat=False, **kwargs)
                got, _ = dsmod.ids_of(examples)
                outcome = "normal-end"
            except BaseException as exc:  # pylint: disable=broad-exception-caught
                if isinstance(exc, (KeyboardInterrupt, SystemExit)):
                    raise
                outcome = "raised"
                obs[f"raised_by:{type(exc).__name__}"] += 1
        obs[f"outcome:{outcome}"] += 1
        obs["delay_injections"] += stats["sleeps"]
        if outcome == "normal-end":
            missing = lost - set(got)
            if missing and not premise:
                obs["vacuous_decoder_accepts_damaged_file"] += 1
            elif missing:
                violations.append({"key": f"silent-truncation/{iface}{'-shuffled' if case['shuffle'] else ''}",
                                   "msg": f"{fmt}/{comp or 'none'} {case['damage']} shard(s) {positions} of "
                                          f"{len(shards)}: the pass ended normally with {len(got)} of {n} examples, "
                                          f"{len(missing)} examples of the damaged shard silently skipped"})
            else:
                obs["damage_tolerated_all_examples_returned"] += 1
        sig = [fmt, comp, iface, bool(case["shuffle"]), case["par"], case["position"], case["damage"]]
        return {"sig": sig, "nontrivial": premise, "violations": violations, "obs": dict(obs),
                "sample": {"case": sig, "outcome": outcome, "premise": premise}}
    finally:
        common.rm(work)


def on_timeout(case: dict, record: dict) -> dict | None:
    diag = record.get("diag", {})
    if diag.get("verdict") == "quiescent":
        return {"violation": f"hang/{case['iface']}{'-shuffled' if case['shuffle'] else ''}",
                "msg": f"{case['fmt']}/{case['comp'] or 'none'} {case['damage']} shard {case['position']}: no result "
                       f"after {record.get('elapsed', 0):.0f}s and the process is quiescent (all {diag.get('threads')} "
                       f"threads sleeping, no CPU time, no context switches). Stacks:\n{diag.get('stacks', '')[-1800:]}"}
    return None
