"""C12 Shard selection options mean the same thing in every iteration interface.

Monitor: the selected shard set is computed by the harness from the independently audited shard list
(predicate; first k in enumeration order; first n per distinct metadata value) and the id multiset each
interface yields under the option is compared with the ids stored in exactly those shards.  Options are
tested singly against the definition and combined across interfaces (differential); a selection that
matches no shard must raise.
"""
from __future__ import annotations

import random
from collections import Counter

from rtmon import common
from rtmon import audit as auditor
from rtmon import ds as dsmod
from rtmon import history as H
from rtmon import readers

LEVEL = "exploration"
NEEDS_RUST = True
WORKERS = 14
CASE_TIMEOUT = 400
REQUIRED_OBS = ["passes_compared", "restricting_options", "empty_selections_checked", "deferred_streams_compared"]
RULE = ("datasets with several shards and metadata groups (flat and nested lists, all formats) x option values "
        "(shards=k in 1..>S, predicates selecting none/some/all, custom_metadata_type_limit n in 1..>group size) x "
        "every interface accepting the option x shuffle on/off. Distinct = (format, interface, option class, "
        "geometry class); non-trivial iff the option actually restricts the selection or selects nothing.")
ASSUMPTIONS = ["enumeration order = own shards of a list in list order, then child lists depth-first (C03)",
               "combined options are compared across interfaces only (the statement defines each option singly)"]

METAS = [{"g": "a"}, {"g": "b"}, {"g": "c", "deep": {"k": [1, 2], "z": 1}},
         {"g": "c", "deep": {"z": 1, "k": [1, 2]}}]      # the last two are EQUAL values (nested key order differs)


def gen_dataset(rng: random.Random) -> dict:
    fmt = rng.choice(["fb", "npz", "tfrec"])
    comp = rng.choice(["", "LZ4", "GZIP"] if fmt == "fb" else ["", "ZIP"] if fmt == "npz" else ["", "GZIP"])
    eps = rng.choice([1, 2, 3])
    sessions = []
    for s in range(rng.randint(1, 3)):
        writes = []
        current = None
        for _ in range(rng.randint(2, 5 * eps + 2)):
            if rng.random() < 0.4:
                current = rng.choice(METAS + [None])
            write = {"split": "train"}
            if current is not None:
                write["meta"] = {"lit": current}
            writes.append(write)
        if s == 0:
            writes += [{"split": "test"}, {"split": "test"}]
        kind = "root" if s == 0 or rng.random() < 0.5 else "subdir"
        sessions.append({"kind": kind, "subdir": rng.choice(["n1", "n1/n2"]), "writes": writes})
    return {"fmt": fmt, "comp": comp, "eps": eps, "sessions": sessions}


def gen_cases(tier: str, seed: int) -> list[dict]:
    rng = random.Random(seed * 1033 + 12)
    n = 60 if tier == "quick" else 900
    return [{"hist": gen_dataset(rng), "oseed": rng.randrange(1 << 30)} for _ in range(n)]


def group_key(meta: dict) -> str:
    import json
    return json.dumps(meta, sort_keys=True)


def select(shards: list, *, pred=None, k=None, limit=None):
    chosen = list(shards)
    if pred is not None:
        chosen = [s for s in chosen if pred(s)]
    if not chosen:
        return []
    if k:
        chosen = chosen[:k]
    if limit:
        counts: Counter = Counter()
        out = []
        for shard in chosen:
            counts[group_key(shard.metadata)] += 1
            if counts[group_key(shard.metadata)] <= limit:
                out.append(shard)
        chosen = out
    return chosen


PREDICATES = {
    "all": lambda meta, n: True,
    "none": lambda meta, n: False,
    "group_a": lambda meta, n: meta.get("g") == "a",
    "labelled": lambda meta, n: bool(meta),
    "unlabelled": lambda meta, n: not meta,
    "not_b": lambda meta, n: meta.get("g") != "b",
    "full_or_deep": lambda meta, n: "deep" in meta or n >= 2,
}


def run_case(case: dict) -> dict:
    from sedpack.io import Dataset
    hist = case["hist"]
    fmt, comp = hist["fmt"], hist["comp"]
    rng = random.Random(case["oseed"])
    # half of the cases run with INFO logging enabled for the library (a legitimate application setting that
    # makes the selection routine evaluate its log arguments)
    import logging
    verbose = case["oseed"] % 2 == 0
    loggers = [logging.getLogger("sedpack"), logging.getLogger("sedpack.io.Dataset")]
    previous = [lg.level for lg in loggers]
    for lg in loggers:
        lg.setLevel(logging.INFO if verbose else logging.WARNING)
    try:
        return _run_case(case, rng, hist, fmt, comp, verbose)
    finally:
        for lg, level in zip(loggers, previous):
            lg.setLevel(level)


def _run_case(case: dict, rng, hist: dict, fmt: str, comp: str, verbose: bool) -> dict:
    from sedpack.io import Dataset
    work = common.new_workdir("c12")
    violations: list[dict] = []
    obs: Counter = Counter()
    sigs = []
    try:
        root = work / "ds"
        model = H.run_history(root, hist)
        if not all(s.completed for s in model.sessions):
            return {"sig": "aborted", "nontrivial": False, "violations": [
                {"key": "session-raised", "msg": str([s.exc for s in model.sessions])}], "obs": {}}
        report = auditor.audit(root, check_digests=False)
        shards = [s for s in report.shards if s.split == "train"]
        total = len(shards)
        groups = Counter(group_key(s.metadata) for s in shards)
        dataset = Dataset(root)
        # sanity: raw enumeration agrees with sedpack's
        theirs = [str(s.file_infos[0].file_path) for s in dataset.shard_info_iterator("train")]
        if theirs != [s.path for s in shards]:
            violations.append({"key": "enumeration-order-differs", "msg": "raw walk vs shard_info_iterator"})
        ifaces = readers.interfaces_for(fmt, comp)

        def check(option_name: str, options: dict, expected_shards, restricting: bool, combined: bool = False):
            want = Counter(i for s in expected_shards for i in s.ids)
            results = {}
            for iface in ifaces:
                if any(name not in readers.ACCEPTS[iface] for name in options):
                    continue
                for shuffle in (0, 7):
                    kwargs = dict(options)
                    if "file_parallelism" in readers.ACCEPTS[iface]:
                        kwargs["file_parallelism"] = rng.choice([1, 2, 3])
                    try:
                        examples = readers.read(dataset, iface, "train", shuffle=shuffle, repeat=False, **kwargs)
                        ids, problems = dsmod.ids_of(examples)
                        got = Counter(ids)
                        outcome = "ok"
                    except Exception as exc:  # pylint: disable=broad-exception-caught
                        got, problems, outcome = None, [], f"raised {type(exc).__name__}: {str(exc)[:120]}"
                    obs["passes_compared"] += 1
                    results[(iface, shuffle)] = got
                    sig = [fmt, iface, option_name, "restricting" if restricting else "all",
                           "nested" if any(s["kind"] == "subdir" for s in hist["sessions"]) else "flat", shuffle > 0]
                    if restricting:
                        sigs.append(sig)
                    if not expected_shards:
                        obs["empty_selections_checked"] += 1
                        if got is not None:
                            violations.append({"key": f"empty-selection-not-an-error/{iface}",
                                               "msg": f"{option_name} {describe(options)} selects no shard but "
                                                      f"{iface} ended normally with {sum(got.values())} examples"})
                        continue
                    if got is None:
                        violations.append({"key": f"selection-raised/{iface}/{option_name}",
                                           "msg": f"{describe(options)}: {outcome}"})
                        continue
                    if not combined and got != want:
                        violations.append({"key": f"option-not-honoured/{option_name}/{iface}/{fmt if iface == 'tfds' else 'any'}",
                                           "msg": f"{describe(options)} on {total} shards (groups {dict(groups)}): "
                                                  f"{iface} shuffle={shuffle} yielded {sum(got.values())} examples, "
                                                  f"the selected shards hold {sum(want.values())}; missing "
                                                  f"{list((want - got).elements())[:4]} extra "
                                                  f"{list((got - want).elements())[:4]}"})
                    for problem in problems:
                        violations.append({"key": "payload", "msg": problem})
            if combined:
                distinct = {tuple(sorted(v.items())) for v in results.values() if v is not None}
                if len(distinct) > 1:
                    violations.append({"key": f"interfaces-disagree/{option_name}",
                                       "msg": f"{describe(options)}: " + "; ".join(
                                           f"{k[0]}/{k[1]}={sum(v.values()) if v is not None else 'raised'}"
                                           for k, v in results.items())})
            if restricting:
                obs["restricting_options"] += 1

        # --- shards=k
        import numpy as np
        for k in sorted({1, 2, max(1, total - 1), total, total + 1, total + 5}):
            # the count as a Python int and as a NumPy integer (e.g. the result of np.ceil(...).astype(int))
            check("shards", {"shards": k if k % 2 else np.int64(k)}, select(shards, k=k), k < total)
        # --- predicates
        for name in rng.sample(sorted(PREDICATES), 5) + ["none"]:
            fn = PREDICATES[name]
            chosen = select(shards, pred=lambda s, fn=fn: fn(s.metadata, s.recorded))
            check(f"filter:{name}",
                  {"shard_filter": (lambda info, fn=fn: fn(info.custom_metadata, info.number_of_examples))},
                  chosen, len(chosen) < total)
        # --- per-metadata limit
        biggest = max(groups.values())
        for limit in sorted({1, 2, max(1, biggest - 1), biggest, biggest + 1}):
            chosen = select(shards, limit=limit)
            check("type_limit", {"custom_metadata_type_limit": limit if limit % 2 == 0 else np.int32(limit)}, chosen,
                  len(chosen) < total)
        # --- combinations: interfaces against each other
        for _ in range(3):
            options = {}
            name = rng.choice(sorted(PREDICATES))
            fn = PREDICATES[name]
            if rng.random() < 0.7:
                options["shard_filter"] = (lambda info, fn=fn: fn(info.custom_metadata, info.number_of_examples))
            if rng.random() < 0.7:
                options["shards"] = rng.randint(1, total + 1)
            if rng.random() < 0.5:
                options["custom_metadata_type_limit"] = rng.randint(1, biggest)
            if not options:
                continue
            pred = (lambda s, fn=fn: fn(s.metadata, s.recorded)) if "shard_filter" in options else None
            chosen = select(shards, pred=pred, k=options.get("shards"),
                            limit=options.get("custom_metadata_type_limit"))
            check("combined:" + "+".join(sorted(options)), options, chosen, len(chosen) < total,
                  combined=bool(chosen))
        # --- several differently restricted streams over the same split are *created* first (same Dataset object)
        # and consumed afterwards, last one first: each must honour the options of its own call
        def labelled(meta, n):
            return bool(meta)
        plans = [("shards=1", {"shards": 1}, select(shards, k=1)),
                 ("no option", {}, select(shards)),
                 ("shards=2", {"shards": 2}, select(shards, k=2))]
        labelled_shards = select(shards, pred=lambda s: labelled(s.metadata, s.recorded))
        if labelled_shards:
            plans.insert(1, ("filter:labelled", {"shard_filter": lambda info: labelled(info.custom_metadata, info.number_of_examples)},
                             labelled_shards))
        for iface in ifaces:
            streams = []
            try:
                for name, options, expected in plans:
                    kwargs = dict(options)
                    if "file_parallelism" in readers.ACCEPTS[iface]:
                        kwargs["file_parallelism"] = 2
                    streams.append((name, expected, readers.open_stream(dataset, iface, "train", shuffle=0, repeat=False, **kwargs)))
                for name, expected, (iterator, closer) in reversed(streams):
                    want = Counter(i for s in expected for i in s.ids)
                    try:
                        got = Counter(dsmod.ids_of(list(iterator))[0])
                    finally:
                        closer()
                    obs["deferred_streams_compared"] += 1
                    if got != want:
                        violations.append({"key": f"stream-uses-options-of-another-call/{iface}/{fmt if iface == 'tfds' else 'any'}",
                                           "msg": f"{fmt} {iface}: streams {[p[0] for p in plans]} were created on one Dataset object and "
                                                  f"consumed afterwards; the one created with [{name}] yielded {sum(got.values())} "
                                                  f"examples, its selection holds {sum(want.values())}"})
            except Exception as exc:  # pylint: disable=broad-exception-caught
                violations.append({"key": f"selection-raised/{iface}/deferred", "msg": f"{type(exc).__name__}: {str(exc)[:200]}"})
        obs["shards_in_dataset"] = total
        obs["cases_with_info_logging"] = int(verbose)
        return {"sigs": sigs, "sig": None, "nontrivial": bool(sigs), "violations": violations, "obs": dict(obs),
                "sample": {"fmt": fmt, "shards": total, "groups": dict(groups), "interfaces": ifaces}}
    finally:
        common.rm(work)


def describe(options: dict) -> str:
    return ", ".join(f"{k}={'<predicate>' if callable(v) else v}" for k, v in options.items())
