"""C15 The Rust reader equals the Python reader for every thread count and timing.

Monitor: differential oracle — for FlatBuffers datasets in every compression the native reader supports
the Rust-backed iterator must yield the sequence of the pure-Python reader (unshuffled) / the same multiset
(shuffled), with worker *completion orders forced* by the FIFO gate for T <, =, > n.  Early drop at every
position: must return (a frozen process is diagnosed by the quiescence oracle — the Rust drop joins its
threads while holding the GIL) and must leave no native thread behind (/proc/self/task before vs after).
The extension is rebuilt from rust/src.  A native harness (rust_harness/, #[path] wrapper crate) checks
parallel_map itself with out-of-order workers and runs under AddressSanitizer in the thorough tier.
"""
from __future__ import annotations

import gc
import os
import random
import subprocess
import time
from collections import Counter
from pathlib import Path

from rtmon import common

LEVEL = "exploration"
NEEDS_RUST = True
WORKERS = 14
CASE_TIMEOUT = 200
QUIESCENCE_SCOPE = "process"   # helpers are polling feeders only
QUIESCENCE_AFTER = 20.0
REQUIRED_OBS = ["passes_compared", "gated_passes", "out_of_order_releases", "early_drops", "thread_count_checks",
                "repeating_streams_compared",
                "native_harness_tests"]
RULE = ("compressions {'',LZ4,GZIP,ZLIB} x attribute layouts x shards n in 1..12 x threads T in 1..n+3 x forced "
        "completion order (reverse/random/middle/in-order, seed) x drop position. Distinct = (compression, layout, n, "
        "T, completion-order hash, drop position); non-trivial iff (T>=2 and n>=2) or a drop.")
ASSUMPTIONS = ["ThreadSanitizer/Miri are not available here (no rust-src); AddressSanitizer needs the nightly "
               "toolchain of the image and is used in the thorough tier only"]

LAYOUTS = {
    "std": [("id", "int64", ()), ("x", "float32", (3,))],
    "wide": [("id", "int64", ()), ("x", "float32", (3,)), ("u", "uint8", (5, 2)), ("h", "float16", (2,)), ("b", "bool", ())],
    "big": [("id", "int64", ()), ("x", "float32", (3,)), ("blob", "uint8", (3000,))],
}


def gen_cases(tier: str, seed: int) -> list[dict]:
    rng = random.Random(seed * 1103 + 15)
    n_cases = 60 if tier == "quick" else 900
    cases = []
    for k in range(n_cases):
        n = rng.choice([1, 2, 3, 4, 5, 7, 9, 12])
        cases.append({"kind": "diff", "comp": ["", "LZ4", "GZIP", "ZLIB"][k % 4], "layout": rng.choice(sorted(LAYOUTS)),
                      "n": n, "eps": rng.choice([1, 2, 3]), "short_last": rng.random() < 0.4,
                      "pseed": rng.randrange(1 << 30), "passes": 5 if tier == "quick" else 8})
    cases.append({"kind": "native", "asan": False})
    if tier == "thorough":
        cases.append({"kind": "native", "asan": True})
    return cases


def layout_values(layout: str, ident: int):
    import numpy as np
    from rtmon import ds as dsmod
    values = dsmod.example(ident)
    if layout == "wide":
        values["u"] = (np.arange(10, dtype=np.uint8).reshape(5, 2) + ident % 200).astype(np.uint8)
        values["h"] = np.array([ident % 100, 0.5], dtype=np.float16)
        values["b"] = np.bool_(ident % 2)
    if layout == "big":
        values["blob"] = (np.arange(3000) * (ident % 7 + 1) % 251).astype(np.uint8)
    return values


def canonical(example: dict) -> tuple:
    import numpy as np
    return tuple((name, str(np.asarray(v).dtype), np.asarray(v).shape, np.asarray(v).tobytes())
                 for name, v in sorted(example.items()))


def native_threads() -> int:
    return len(os.listdir("/proc/self/task"))


def run_case(case: dict) -> dict:
    if case["kind"] == "native":
        return run_native(case)
    import numpy as np
    from sedpack.io import Dataset
    from sedpack.io.metadata import Attribute
    from rtmon import ds as dsmod, readers
    from rtmon.monitors.fifo_gate import Gate
    rng = random.Random(case["pseed"])
    comp, layout, n, eps = case["comp"], case["layout"], case["n"], case["eps"]
    work = common.new_workdir("c15")
    violations, obs, sigs = [], Counter(), []
    try:
        attrs = [Attribute(name=a, dtype=d, shape=s) for a, d, s in LAYOUTS[layout]]
        root = work / "ds"
        dataset = dsmod.create(root, "fb", comp, eps, attrs=attrs)
        total = n * eps - (1 if case["short_last"] and eps > 1 else 0)
        with dataset.filler() as filler:
            for k in range(total):
                filler.write_example(values=layout_values(layout, dsmod.make_id("train", 0, 0, k)), split="train")
        dataset = Dataset(root)
        paths = [root / s.file_infos[0].file_path for s in dataset.shard_info_iterator("train")]
        python_seq = [canonical(e) for e in readers.read(dataset, "sync", "train", shuffle=0, repeat=False)]
        if len(python_seq) != total:
            violations.append({"key": "python-reader-count", "msg": f"{len(python_seq)} != {total}"})
        for _ in range(case["passes"]):
            T = rng.choice(sorted({1, 2, max(1, len(paths) - 1), len(paths), len(paths) + 1, len(paths) + 3}))
            shuffle = rng.choice([0, 0, 0, 4])
            policy = rng.choice(["reverse", "reverse", "random", "middle", "inorder"])
            label = f"fb/{comp or 'none'} layout={layout} shards={len(paths)} T={T} shuffle={shuffle} gate={policy}"
            try:
                with Gate(paths, work, policy=policy, seed=rng.randrange(1 << 30), expect=min(T, len(paths))) as gate:
                    rust = [canonical(e) for e in readers.read(dataset, "rust", "train", shuffle=shuffle, repeat=False,
                                                               file_parallelism=T)]
            except BaseException as exc:  # pylint: disable=broad-exception-caught
                if isinstance(exc, (KeyboardInterrupt, SystemExit)):
                    raise
                violations.append({"key": "rust-pass-raised", "msg": f"{label}: {type(exc).__name__}: {str(exc)[:200]}"})
                continue
            obs["passes_compared"] += 1
            obs["gated_passes"] += 1
            obs["out_of_order_releases"] += gate.out_of_order_releases()
            obs["max_ready"] = max(obs["max_ready"], gate.max_ready())
            if gate.max_ready() > T:
                violations.append({"key": "more-shards-in-flight-than-threads",
                                   "msg": f"{label}: {gate.max_ready()} shards were open at once"})
            if shuffle == 0 and rust != python_seq:
                first = next((i for i, (a, b) in enumerate(zip(rust, python_seq)) if a != b), min(len(rust), len(python_seq)))
                violations.append({"key": "rust-sequence-differs-from-python",
                                   "msg": f"{label}: {len(rust)} vs {len(python_seq)} examples, first difference at "
                                          f"{first}; release order {gate.release_order()}"})
            if shuffle and Counter(rust) != Counter(python_seq):
                violations.append({"key": "rust-multiset-differs-from-python",
                                   "msg": f"{label}: release order {gate.release_order()}"})
            if (T >= 2 and len(paths) >= 2):
                sigs.append([comp, layout, len(paths), T, common.stable_hash(gate.release_order()), None])
        # ---- repeating streams: every epoch of the Rust reader must be the split again (shuffled: as a multiset).
        #      Progress is judged on logical steps: three epochs started in a row without a single example is a
        #      stream that will never deliver again (the guard raises instead of letting the loop spin).
        import itertools
        from sedpack.io import dataset_iteration as di
        original_single_iter = di.RustGenerator._single_iter  # pylint: disable=protected-access
        empty_epochs = {"n": 0}

        class StalledStream(RuntimeError):
            pass

        def guarded_single_iter(self):
            produced = False
            for example in original_single_iter(self):
                produced = True
                empty_epochs["n"] = 0
                yield example
            if not produced:
                empty_epochs["n"] += 1
                if empty_epochs["n"] >= 3:
                    raise StalledStream("three epochs in a row delivered nothing")

        di.RustGenerator._single_iter = guarded_single_iter  # pylint: disable=protected-access
        try:
            for shuffle in (0, 3, 1000):
                T = rng.choice([1, 2, len(paths) + 1])
                label = f"fb/{comp or 'none'} layout={layout} shards={len(paths)} T={T} shuffle={shuffle} repeat=True"
                empty_epochs["n"] = 0
                try:
                    stream = [canonical(e) for e in readers.read(dataset, "rust", "train", shuffle=shuffle, repeat=True,
                                                                 file_parallelism=T, limit=2 * total + max(1, total // 2))]
                except StalledStream:
                    violations.append({"key": "rust-repeating-stream-stops-delivering",
                                       "msg": f"{label}: after {empty_epochs['n']} epochs without an example the stream was given up"})
                    continue
                except BaseException as exc:  # pylint: disable=broad-exception-caught
                    if isinstance(exc, (KeyboardInterrupt, SystemExit)):
                        raise
                    violations.append({"key": "rust-pass-raised", "msg": f"{label}: {type(exc).__name__}: {str(exc)[:200]}"})
                    continue
                obs["repeating_streams_compared"] += 1
                for epoch in range(2):
                    chunk = stream[epoch * total:(epoch + 1) * total]
                    same = chunk == python_seq if shuffle == 0 else Counter(chunk) == Counter(python_seq)
                    if not same:
                        violations.append({"key": "rust-epoch-differs-from-python",
                                           "msg": f"{label}: epoch {epoch} of the repeating stream has {len(chunk)} examples and is "
                                                  f"not the split as the Python reader returns it ({total})"})
                tail = stream[2 * total:]
                if shuffle == 0 and tail != python_seq[:len(tail)]:
                    violations.append({"key": "rust-epoch-differs-from-python", "msg": f"{label}: third epoch starts differently"})
        finally:
            di.RustGenerator._single_iter = original_single_iter  # pylint: disable=protected-access
        # ---- early drop at every position (ungated and gated)
        positions = list(range(0, total)) if total <= 8 else sorted(set(rng.sample(range(total), 8)) | {0, 1, total - 1})
        for position in positions:
            T = rng.choice(sorted({1, 2, len(paths), len(paths) + 2}))
            gated = rng.random() < 0.5
            repeat = rng.random() < 0.3
            gc.collect()
            before = native_threads()
            label = f"fb/{comp or 'none'} shards={len(paths)} examples={total} T={T} drop after {position} gated={gated} repeat={repeat}"
            alive_right_after = None
            try:
                if gated:
                    # a slow feeder: a worker that was not joined stays blocked on its shard for a while after
                    # the drop returned, and is seen by the thread count taken right then
                    with Gate(paths, work, policy="random", seed=position, expect=min(T, len(paths)), rounds=4,
                              settle=0.3):
                        drop(dataset, T, position, repeat)
                        time.sleep(0.12)
                        alive_right_after = native_threads() - before
                else:
                    drop(dataset, T, position, repeat)
            except BaseException as exc:  # pylint: disable=broad-exception-caught
                if isinstance(exc, (KeyboardInterrupt, SystemExit)):
                    raise
                violations.append({"key": "early-drop-raised", "msg": f"{label}: {type(exc).__name__}: {str(exc)[:200]}"})
                continue
            obs["early_drops"] += 1
            if alive_right_after is not None:
                obs["thread_counts_right_after_drop"] += 1
                if alive_right_after > 0:
                    violations.append({"key": "threads-alive-when-drop-returned",
                                       "msg": f"{label}: {alive_right_after} native reader thread(s) were still alive 0.12 s "
                                              f"after the iterator's close() had returned (they are not joined)"})
            deadline = time.monotonic() + 3.0
            while native_threads() > before and time.monotonic() < deadline:
                time.sleep(0.01)
            obs["thread_count_checks"] += 1
            after = native_threads()
            if after > before:
                violations.append({"key": "threads-left-after-early-drop",
                                   "msg": f"{label}: {after - before} native thread(s) still alive 3 s after the "
                                          f"iterator was dropped ({before} -> {after})"})
            sigs.append([comp, layout, len(paths), T, gated, position if total <= 8 else "sampled"])
        # ---- a damaged shard (one of the last ones): the Python reader raises, so must the Rust reader
        if len(paths) >= 2:
            victim = paths[rng.choice([len(paths) - 1, max(0, len(paths) - 2)])]
            original_bytes = victim.read_bytes()
            damage = rng.choice(["deleted", "truncated"])
            try:
                if damage == "deleted":
                    victim.unlink()
                else:
                    victim.write_bytes(original_bytes[:max(1, len(original_bytes) // 2)])
                outcomes = {}
                for name, T in (("python", None), ("rust-1", 1), ("rust-2", 2), ("rust-many", len(paths) + 1)):
                    try:
                        kwargs = {} if T is None else {"file_parallelism": T}
                        got = readers.read(Dataset(root), "sync" if T is None else "rust", "train", shuffle=0,
                                           repeat=False, **kwargs)
                        outcomes[name] = f"ended normally with {len(got)} examples"
                    except BaseException as exc:  # pylint: disable=broad-exception-caught
                        if isinstance(exc, (KeyboardInterrupt, SystemExit)):
                            raise
                        outcomes[name] = "raised"
                obs["damaged_shard_differentials"] += 1
                if outcomes["python"] == "raised":
                    for name, outcome in outcomes.items():
                        if outcome != "raised":
                            violations.append({"key": "rust-ends-normally-where-python-raises",
                                               "msg": f"fb/{comp or 'none'} {damage} shard {paths.index(victim)} of {len(paths)}: "
                                                      f"{name} {outcome}, the Python reader raised"})
            finally:
                victim.write_bytes(original_bytes)
        # ---- overlapping readers with non-nested lifetimes: A starts, B starts, A finishes, C starts while B
        #      is mid-way (train/validation interleaving across an epoch boundary)
        try:
            kwargs = {"file_parallelism": 2}
            it_a, close_a = readers.open_stream(dataset, "rust", "train", shuffle=0, repeat=False, **kwargs)
            it_b, close_b = readers.open_stream(dataset, "rust", "train", shuffle=0, repeat=False, **kwargs)
            got_a, got_b, got_c = [], [], []
            first = next(it_a, None)
            if first is not None:
                got_a.append(canonical(first))
            first = next(it_b, None)
            if first is not None:
                got_b.append(canonical(first))
            got_a += [canonical(e) for e in it_a]
            close_a()
            it_c, close_c = readers.open_stream(dataset, "rust", "train", shuffle=0, repeat=False, **kwargs)
            import itertools
            for ex_b, ex_c in itertools.zip_longest(it_b, it_c):
                if ex_b is not None:
                    got_b.append(canonical(ex_b))
                if ex_c is not None:
                    got_c.append(canonical(ex_c))
            close_b()
            close_c()
            obs["overlapping_reader_groups"] += 1
            for name, got in (("A", got_a), ("B", got_b), ("C", got_c)):
                if got != python_seq:
                    violations.append({"key": "overlapping-rust-readers-interfere",
                                       "msg": f"fb/{comp or 'none'} shards={len(paths)}: reader {name} yielded {len(got)} "
                                              f"examples, differs from the Python sequence ({len(python_seq)})"})
        except BaseException as exc:  # pylint: disable=broad-exception-caught
            if isinstance(exc, (KeyboardInterrupt, SystemExit)):
                raise
            violations.append({"key": "overlapping-rust-readers-raised", "msg": f"{type(exc).__name__}: {str(exc)[:200]}"})
        # ---- two Python threads, each with its own Rust reader: A waits on slow (gated) shards of the dataset
        #      while B keeps creating / iterating / dropping readers over an ungated copy
        import shutil
        import threading
        root_b = work / "ds_b"
        shutil.copytree(root, root_b)
        outputs: dict = {}
        stop = threading.Event()

        def reader_a() -> None:
            try:
                outputs["A"] = [canonical(e) for e in readers.read(Dataset(root), "rust", "train", shuffle=0,
                                                                  repeat=False, file_parallelism=2)]
            except BaseException as exc:  # pylint: disable=broad-exception-caught
                outputs["A"] = f"{type(exc).__name__}: {str(exc)[:160]}"
            finally:
                stop.set()

        def reader_b() -> None:
            passes = 0
            try:
                dataset_b = Dataset(root_b)
                while not stop.is_set() and passes < 50:
                    got = [canonical(e) for e in readers.read(dataset_b, "rust", "train", shuffle=0, repeat=False,
                                                              file_parallelism=1 + passes % 3)]
                    passes += 1
                    if got != python_seq:
                        outputs["B"] = f"pass {passes}: {len(got)} examples, differs from the Python sequence"
                        return
                outputs["B"] = passes
            except BaseException as exc:  # pylint: disable=broad-exception-caught
                outputs["B"] = f"{type(exc).__name__}: {str(exc)[:160]}"

        with Gate(paths, work, policy="inorder", seed=case["pseed"], expect=1, rounds=1, settle=0.06):
            threads = [threading.Thread(target=reader_a), threading.Thread(target=reader_b)]
            for thread in threads:
                thread.start()
            for thread in threads:
                thread.join()      # a deadlock here is diagnosed by the orchestrator's quiescence oracle
        obs["concurrent_thread_pairs"] += 1
        obs["passes_by_the_second_thread"] += outputs["B"] if isinstance(outputs.get("B"), int) else 0
        if outputs.get("A") != python_seq:
            violations.append({"key": "rust-readers-in-two-threads-interfere",
                               "msg": f"fb/{comp or 'none'} shards={len(paths)}: gated thread got "
                                      f"{outputs.get('A') if isinstance(outputs.get('A'), str) else len(outputs.get('A', []))}"})
        if not isinstance(outputs.get("B"), int):
            violations.append({"key": "rust-readers-in-two-threads-interfere",
                               "msg": f"fb/{comp or 'none'} shards={len(paths)}: second thread: {outputs.get('B')}"})
        obs["native_harness_tests"] = 0
        return {"sigs": sigs, "sig": None, "nontrivial": bool(sigs), "violations": violations, "obs": dict(obs),
                "sample": {"comp": comp, "layout": layout, "shards": len(paths), "examples": total}}
    finally:
        common.rm(work)


def drop(dataset, T: int, position: int, repeat: bool) -> None:
    generator = dataset.as_numpy_iterator_rust(split="train", shuffle=0, repeat=repeat, file_parallelism=T)
    iterator = iter(generator)
    for _ in range(position):
        next(iterator)
    generator.close()
    del iterator, generator
    gc.collect()


def run_native(case: dict) -> dict:
    """cargo test of the wrapper crate that #[path]-includes /repo/rust/src/*.rs."""
    harness = common.VERIF / "rust_harness"
    target = common.BUILD / ("rs-harness-asan" if case["asan"] else "rs-harness")
    env = dict(os.environ, CARGO_TARGET_DIR=str(target), CARGO_NET_OFFLINE="true", RTMON_REPO_RUST=str(common.REPO / "rust"))
    cmd = ["cargo"]
    if case["asan"]:
        env["RUSTFLAGS"] = "-Zsanitizer=address"
        env["ASAN_OPTIONS"] = "halt_on_error=1:abort_on_error=1:detect_leaks=0"
        cmd += ["+nightly", "test", "--offline", "--lib", "--target", "x86_64-unknown-linux-gnu"]
    else:
        cmd += ["test", "--release", "--offline", "--lib"]
    cmd += ["--manifest-path", str(harness / "Cargo.toml"), "--", "harness_", "--test-threads", "1"]
    work = common.new_workdir("c15n")
    try:
        env["RTMON_SHARD_MANIFEST"] = str(prepare_shards(work))
        proc = subprocess.run(cmd, env=env, capture_output=True, text=True, timeout=1500, check=False)
    finally:
        common.rm(work)
    out = proc.stdout + proc.stderr
    passed = out.count("... ok")
    failed = [line for line in out.splitlines()
              if line.startswith("test ") and not line.startswith("test result") and "FAILED" in line]
    violations = []
    inconclusive = []
    if "AddressSanitizer" in out:
        violations.append({"key": "address-sanitizer-report", "msg": out[out.index("AddressSanitizer") - 200:][:1500]})
    for line in failed:
        name = line.split()[1]
        detail = out[out.find(f"---- {name}"):][:900] if f"---- {name}" in out else ""
        violations.append({"key": f"native-harness/{name.split('::')[-1]}", "msg": f"{line}\n{detail}"})
    if proc.returncode != 0 and not failed and "AddressSanitizer" not in out:
        inconclusive.append(f"native harness did not build/run (rc={proc.returncode}): {out[-900:]}")
    return {"sig": ["native", case["asan"]], "nontrivial": True, "violations": violations, "inconclusive": inconclusive,
            "obs": {"native_harness_tests": passed, "asan_runs": int(case["asan"]), "passes_compared": 0,
                    "gated_passes": 0, "out_of_order_releases": 0, "early_drops": 0, "thread_count_checks": 0},
            "sample": {"native_harness": "asan" if case["asan"] else "release", "tests_passed": passed}}


def prepare_shards(work: Path) -> Path:
    """Valid FlatBuffers shards in every supported compression + hostile variants (truncated, bit-flipped,
    garbage, empty, wrong codec) for the native ExampleIterator test (memory safety under ASan; valid shards
    must yield their examples, damaged ones may only panic)."""
    from rtmon import ds as dsmod
    rng = random.Random(15)
    lines = []
    for comp in ("", "LZ4", "GZIP", "ZLIB"):
        dataset = dsmod.create(work / f"ds{comp or 'none'}", "fb", comp, 3)
        dsmod.write_simple(dataset, {"train": [dsmod.make_id("train", 0, 0, k) for k in range(7)]})
        for info in dataset.shard_info_iterator("train"):
            path = dataset.path / info.file_infos[0].file_path
            lines.append(f"{path}\t{comp}\t{info.number_of_examples}")
            data = path.read_bytes()
            variants = {"trunc": data[:len(data) // 2], "empty": b"", "garbage": rng.randbytes(len(data)),
                        "flip": bytes(b ^ (0x40 if i == len(data) // 3 else 0) for i, b in enumerate(data)),
                        "tail": data + b"\x00\x01\x02", "head": b"\xff" * 4 + data[4:]}
            for name, blob in variants.items():
                bad = path.with_suffix(f".{name}.fb")
                bad.write_bytes(blob)
                lines.append(f"{bad}\t{comp}\t-1")
            lines.append(f"{path}.missing\t{comp}\t-1")
    manifest = work / "manifest.tsv"
    manifest.write_text("\n".join(lines) + "\n")
    return manifest


def on_timeout(case: dict, record: dict) -> dict | None:
    diag = record.get("diag", {})
    if diag.get("verdict") == "quiescent":
        return {"violation": "rust-iterator-blocked",
                "msg": f"{case}: no progress and the process is quiescent (all {diag.get('threads')} threads sleeping; the "
                       f"native drop joins its threads while holding the GIL, so no Python stack can be dumped)\n"
                       f"{diag.get('stacks', '')[-800:]}"}
    return None
