"""C14 Iteration is lazy: read-ahead is bounded by the configured buffers.

Monitor: (a) counting sources under shuffle_buffer / round_robin (+ async variants) / LazyPool measure
"pulled minus yielded" at every yield, at stream lengths N, 10N and infinite; (b) on datasets the number
of shard reads started (counting wrappers on the per-shard read functions; FIFO-gate releases for the Rust
threads; the kernel's own open events on the shard files via inotify, which also see TensorFlow's native
TFRecord readers) is compared with the shards needed for the k examples taken, for finite datasets of two sizes
and for repeating (infinite) streams, with slow and fast consumers.  Decision: read-ahead <= 4(b+T)+16 and
independent of the stream length; exact maxima are reported but do not decide (a retuned prefetch
constant is not an alarm).  A memory guard turns an unbounded materialisation into a diagnosed exit.
"""
from __future__ import annotations

import asyncio
import itertools
import math
import os
import random
import threading
import time
from collections import Counter

from rtmon import common

LEVEL = "exploration"
NEEDS_RUST = True
WORKERS = 14
CASE_TIMEOUT = 150
QUIESCENCE_SCOPE = "process"   # helpers are polling feeders only
QUIESCENCE_AFTER = 60.0
REQUIRED_OBS = ["iterator_measurements", "dataset_measurements", "infinite_streams_taken", "rust_measurements",
                "kernel_open_measurements", "native_tfrecord_measurements", "measurements_with_process_record"]
RULE = ("paths {shuffle_buffer, shuffle_buffer_async, round_robin, round_robin_async, LazyPool, dataset-level sync / "
        "concurrent unshuffled / concurrent shuffled / async / Rust / tf.data-generator} x buffer b x threads T x stream "
        "length {N, 10N, infinite} x take-count k x consumer speed. Distinct = (path, b, T, length class, k class, "
        "consumer); non-trivial iff the stream is longer than k + bound.")
ASSUMPTIONS = ["under-observation under load can only miss a violation, never invent one",
               "TensorFlow's native TFRecord pipeline is measured by the kernel's open events only (inotify), a quarter "
               "of a second after the consumer stopped taking"]
MEMORY_LIMIT = 6 * 1024 ** 3
EXIT_MEMORY = 97


def bound(b: int, threads: int) -> int:
    return 4 * (b + threads) + 16


def gen_cases(tier: str, seed: int) -> list[dict]:
    rng = random.Random(seed * 1097 + 14)
    cases = []
    n_it = 40 if tier == "quick" else 600
    for _ in range(n_it):
        cases.append({"kind": "iterator", "path": rng.choice(["shuffle_buffer", "shuffle_buffer_async", "round_robin",
                                                              "round_robin_async", "lazy_pool", "lazy_pool"]),
                      "b": rng.choice([1, 2, 3, 5, 17, 64]), "T": rng.choice([1, 2, 3, 5, 8]),
                      "k": rng.choice([1, 5, 20, 60]), "consumer": rng.choice(["fast", "slow"]),
                      "seed": rng.randrange(1 << 30)})
    n_ds = 40 if tier == "quick" else 600
    for k in range(n_ds):
        fmt = ["fb", "fb", "npz", "tfrec"][k % 4]
        cases.append({"kind": "dataset", "fmt": fmt, "eps": rng.choice([1, 2, 4]),
                      "T": rng.choice([1, 2, 3, 8, None]), "shuffle": rng.choice([0, 0, 3, 10]),
                      "k": rng.choice([1, 3, 10, 30]), "consumer": rng.choice(["fast", "slow"]),
                      "seed": rng.randrange(1 << 30), "process_record": k % 5 in (1, 3)})
    return cases


def worker_init() -> None:
    """Memory guard: an eager materialisation of an infinite stream must not take the machine down."""
    def guard():
        page = os.sysconf("SC_PAGE_SIZE")
        while True:
            try:
                rss = int(open("/proc/self/statm").read().split()[1]) * page
            except OSError:
                rss = 0
            if rss > MEMORY_LIMIT:
                os._exit(EXIT_MEMORY)
            time.sleep(0.05)
    threading.Thread(target=guard, daemon=True).start()


class Counting:
    def __init__(self, iterable):
        self.it = iter(iterable)
        self.pulled = 0

    def __iter__(self):
        return self

    def __next__(self):
        value = next(self.it)
        self.pulled += 1
        return value


class AsyncCounting:
    def __init__(self, iterable):
        self.it = iter(iterable)
        self.pulled = 0

    def __aiter__(self):
        return self

    async def __anext__(self):
        try:
            value = next(self.it)
        except StopIteration:
            raise StopAsyncIteration from None
        self.pulled += 1
        return value


def lengths(k: int, b: int, threads: int) -> dict:
    base = k + bound(b, threads) + 10
    return {"N": base, "10N": 10 * base, "inf": None}


def run_case(case: dict) -> dict:
    if case["kind"] == "iterator":
        return run_iterator(case)
    return run_dataset(case)


def run_iterator(case: dict) -> dict:
    from sedpack.io.itertools import LazyPool, round_robin, round_robin_async, shuffle_buffer
    from sedpack.io.itertools.itertools import shuffle_buffer_async
    path, b, T, k = case["path"], case["b"], case["T"], case["k"]
    slow = case["consumer"] == "slow"
    violations, obs, sigs = [], Counter(), []
    per_length = {}
    inner_len = 3
    for name, n in lengths(k, b, T).items():
        def numbers():
            return itertools.count() if n is None else iter(range(n))
        ahead = 0
        taken = 0
        if path == "shuffle_buffer":
            src = Counting(numbers())
            for i, _ in enumerate(shuffle_buffer(src, b)):
                ahead = max(ahead, src.pulled - (i + 1))
                taken = i + 1
                if taken >= k:
                    break
            limit = bound(b, 0)
        elif path == "shuffle_buffer_async":
            src = AsyncCounting(numbers())

            async def consume():
                nonlocal ahead, taken
                agen = shuffle_buffer_async(src, b)
                async for _ in agen:
                    taken += 1
                    ahead = max(ahead, src.pulled - taken)
                    if taken >= k:
                        break
                await agen.aclose()
            asyncio.run(consume())
            limit = bound(b, 0)
        elif path == "round_robin":
            src = Counting(iter(range(inner_len)) for _ in numbers())
            for i, _ in enumerate(round_robin(src, b)):
                ahead = max(ahead, src.pulled - math.ceil((i + 1) / inner_len))
                taken = i + 1
                if taken >= k:
                    break
            limit = bound(b, 0)
        elif path == "round_robin_async":
            async def inner():
                for v in range(inner_len):
                    yield v
            src = AsyncCounting(inner() for _ in numbers())

            async def consume():
                nonlocal ahead, taken
                agen = round_robin_async(src, b)
                async for _ in agen:
                    taken += 1
                    ahead = max(ahead, src.pulled - math.ceil(taken / inner_len))
                    if taken >= k:
                        break
                await agen.aclose()
            asyncio.run(consume())
            limit = bound(b, 0)
        else:
            src = Counting(numbers())
            work = (lambda x: x) if slow else (lambda x: (time.sleep(0.0003), x)[1])
            with LazyPool(T) as pool:
                for i, _ in enumerate(pool.imap_unordered(work, src)):
                    if slow:
                        time.sleep(0.002)      # workers much faster than the consumer
                    ahead = max(ahead, src.pulled - (i + 1))
                    taken = i + 1
                    if taken >= k:
                        break
            limit = bound(0, T)
        per_length[name] = ahead
        obs["iterator_measurements"] += 1
        if n is None:
            obs["infinite_streams_taken"] += 1
        if taken < k:
            violations.append({"key": f"take-did-not-complete/{path}", "msg": f"{name}: took {taken} of {k}"})
        if ahead > limit:
            violations.append({"key": f"read-ahead-exceeds-bound/{path}",
                               "msg": f"{path} b={b} T={T} k={k} length={name} consumer={case['consumer']}: pulled "
                                      f"{ahead} elements ahead of the consumer, bound {limit}"})
        sigs.append([path, b if path != "lazy_pool" else 0, T if path == "lazy_pool" else 0, name,
                     "k<=b" if k <= b else "k>b", case["consumer"]])
    if path != "lazy_pool" and len(set(per_length.values())) > 1:
        violations.append({"key": f"read-ahead-depends-on-stream-length/{path}",
                           "msg": f"{path} b={b} k={k}: read-ahead per stream length {per_length}"})
    if path == "lazy_pool" and max(per_length.values()) - min(per_length.values()) > 2 * T + 2:
        violations.append({"key": "read-ahead-depends-on-stream-length/lazy_pool",
                           "msg": f"T={T} k={k} consumer={case['consumer']}: {per_length}"})
    return {"sigs": sigs, "sig": None, "nontrivial": True, "violations": violations,
            "obs": {**obs, f"max_ahead:{path}": max(per_length.values())},
            "sample": {"path": path, "b": b, "T": T, "k": k, "read_ahead_by_length": per_length}}


class ShardReadCounter:
    """Counts shard reads started, by wrapping the per-shard read functions of the three formats."""

    def __init__(self):
        self.count = 0
        self.lock = threading.Lock()
        self.patched = []

    def __enter__(self):
        from sedpack.io.flatbuffer import IterateShardFlatBuffer
        from sedpack.io.npz import IterateShardNP
        from sedpack.io.tfrec import IterateShardTFRec
        for cls in (IterateShardFlatBuffer, IterateShardNP, IterateShardTFRec):
            for name in ("iterate_shard", "iterate_shard_async"):
                original = cls.__dict__.get(name)
                if original is None:
                    continue
                if name == "iterate_shard":
                    def wrapper(this, *args, _orig=original, **kwargs):
                        with self.lock:
                            self.count += 1
                        return _orig(this, *args, **kwargs)
                else:
                    def wrapper(this, *args, _orig=original, **kwargs):
                        with self.lock:
                            self.count += 1
                        return _orig(this, *args, **kwargs)
                setattr(cls, name, wrapper)
                self.patched.append((cls, name, original))
        return self

    def __exit__(self, *exc):
        for cls, name, original in self.patched:
            setattr(cls, name, original)


def run_dataset(case: dict) -> dict:
    from sedpack.io import Dataset
    from rtmon import ds as dsmod, readers
    from rtmon.monitors.fifo_gate import Gate
    from rtmon.monitors.inotify import OpenWatcher
    fmt, eps, T, shuffle, k = case["fmt"], case["eps"], case["T"], case["shuffle"], case["k"]
    rng = random.Random(case["seed"])
    slow = case["consumer"] == "slow"
    work = common.new_workdir("c14")
    violations, obs, sigs = [], Counter(), []
    try:
        threads = T or (os.cpu_count() or 1)
        baseline_threads = threading.active_count()
        allowed_ahead = math.ceil(shuffle / eps) + bound(threads, threads)
        needed = math.ceil(k / eps)
        sizes = {"S": needed + allowed_ahead + 6, "4S": 4 * (needed + allowed_ahead + 6)}
        comp = {"fb": "LZ4", "npz": "", "tfrec": ""}[fmt]
        ifaces = list(readers.interfaces_for(fmt, comp))
        measured: dict = {}
        opens_per_read: dict = {}
        for size_name, n_shards in sizes.items():
            root = work / f"ds_{size_name}"
            dataset = dsmod.create(root, fmt, comp, eps)
            dsmod.write_simple(dataset, {"train": [dsmod.make_id("train", 0, 0, j) for j in range(n_shards * eps)]})
            dataset = Dataset(root)
            for iface in ifaces:
                for repeat in (False, True):
                    if size_name == "4S" and repeat:
                        continue
                    if T is None and iface != "tfds":
                        continue      # only as_tfdataset documents file_parallelism=None
                    kwargs = {"file_parallelism": T} if "file_parallelism" in readers.ACCEPTS[iface] else {}
                    if case.get("process_record"):
                        # a per-example transformation is one more stage of the pipeline; it must stay as lazy
                        kwargs["process_record"] = readers.double_plus_one
                        obs["measurements_with_process_record"] += 1
                    allowed_here = allowed_ahead
                    if iface == "tfds":
                        # as_tfdataset has a second configured parallelism (decoding / per-example transformation,
                        # default os.cpu_count()): each of its two map stages keeps up to that many elements in
                        # flight.  It is set explicitly and enters the bound like the other configured sizes.
                        decode_parallelism = 1 + case["seed"] % 4
                        kwargs["parallelism"] = decode_parallelism
                        allowed_here += 4 * decode_parallelism + 4
                    label = (f"{fmt} {iface} T={T} shuffle={shuffle} k={k} eps={eps} shards={n_shards} repeat={repeat} "
                             f"consumer={case['consumer']} process_record={bool(case.get('process_record'))}"
                             + (f" parallelism={kwargs['parallelism']}" if iface == "tfds" else ""))
                    try:
                        if iface == "rust":
                            paths = [root / s.file_infos[0].file_path for s in dataset.shard_info_iterator("train")]
                            with Gate(paths, work, policy="inorder", seed=0, expect=threads, rounds=3, settle=0.01) as gate:
                                taken = take(dataset, iface, shuffle, repeat, k, slow, kwargs)
                                time.sleep(0.15)     # let the native threads run ahead as far as they will
                                closer()
                            opened = len(gate.log)
                            obs["rust_measurements"] += 1
                        else:
                            # two independent observers: wrappers on the per-shard read functions, and the
                            # kernel's own record of opens of the shard files (inotify), which also sees
                            # TensorFlow's native TFRecord readers and any read that bypasses the wrappers
                            native = iface == "tfds" and fmt == "tfrec"
                            shard_files = [root / s.file_infos[0].file_path for s in dataset.shard_info_iterator("train")]
                            if native:
                                # let the worker threads of the streams abandoned just before finish their current
                                # TFRecord read: destroying an endless native iterator while Python threads are
                                # still inside TensorFlow ops was seen to block inside TensorFlow (DESIGN §4 (iv)/(v))
                                settle_until = time.monotonic() + 3.0
                                while threading.active_count() > baseline_threads and time.monotonic() < settle_until:
                                    time.sleep(0.02)
                            try:
                                watcher = OpenWatcher(shard_files).__enter__()
                            except OSError:
                                watcher = None       # no inotify here: the kernel-side observer is simply absent
                                obs["inotify_unavailable"] += 1
                            try:
                                with ShardReadCounter() as counter:
                                    taken = take(dataset, iface, shuffle, repeat, k, slow, kwargs)
                                    time.sleep(0.25 if native else 0.05)
                                    opened = counter.count
                                    events = list(watcher.drain()) if watcher else []
                                    closer()
                            finally:
                                if watcher:
                                    watcher.__exit__(None, None, None)
                            if watcher is None:
                                pass
                            elif watcher.overflow:
                                obs["inotify_overflow"] += 1
                            else:
                                files = len(set(events))
                                if not repeat and files:
                                    # a finite pass reads a shard at most once: events per file = opens per read
                                    opens_per_read[iface] = max(1, len(events) // files)
                                kernel = files if not repeat else math.ceil(len(events) / opens_per_read.get(iface, 1))
                                obs["kernel_open_measurements"] += 1
                                obs["kernel_open_events"] += len(events)
                                if native:
                                    obs["native_tfrecord_measurements"] += 1
                                elif kernel != opened:
                                    obs["kernel_and_wrapper_counts_differ"] += 1
                                opened = max(opened, kernel)
                    except Exception as exc:  # pylint: disable=broad-exception-caught
                        violations.append({"key": f"take-raised/{iface}", "msg": f"{label}: {type(exc).__name__}: {str(exc)[:200]}"})
                        continue
                    obs["dataset_measurements"] += 1
                    if repeat:
                        obs["infinite_streams_taken"] += 1
                    if taken < k:
                        violations.append({"key": f"take-did-not-complete/{iface}", "msg": f"{label}: {taken} of {k}"})
                    ahead = opened - needed
                    measured[(iface, size_name, repeat)] = opened
                    sigs.append([f"dataset:{iface}", fmt, threads if T else "None", "s0" if shuffle == 0 else "s>0",
                                 "inf" if repeat else size_name, "k<=eps" if k <= eps else "k>eps", case["consumer"]])
                    if ahead > allowed_here:
                        violations.append({"key": f"shard-read-ahead-exceeds-bound/{iface}{'-shuffled' if shuffle else ''}",
                                           "msg": f"{label}: {opened} shard reads started for {k} examples ({needed} "
                                                  f"needed), allowed read-ahead {allowed_here}"})
                    obs[f"max_shards_ahead:{iface}"] = max(obs[f"max_shards_ahead:{iface}"], ahead)
        for iface in ifaces:
            small, big = measured.get((iface, "S", False)), measured.get((iface, "4S", False))
            if small is not None and big is not None and big > small + allowed_ahead + (20 if iface == "tfds" else 0):
                violations.append({"key": f"shard-read-ahead-grows-with-dataset/{iface}",
                                   "msg": f"{fmt} {iface} T={T} shuffle={shuffle} k={k}: {small} shard reads on "
                                          f"{sizes['S']} shards but {big} on {sizes['4S']} shards"})
        maxima = {key: obs.pop(key) for key in [k2 for k2 in obs if k2.startswith("max_shards_ahead:")]}
        return {"sigs": sigs, "sig": None, "nontrivial": True, "violations": violations,
                "obs": {**obs, **{f"max_{k2[4:]}": v for k2, v in maxima.items()}},
                "sample": {"fmt": fmt, "T": T, "shuffle": shuffle, "k": k, "shard_reads": {str(k2): v for k2, v in measured.items()}}}
    finally:
        common.rm(work)


_STATE: dict = {}


def take(dataset, iface, shuffle, repeat, k, slow, kwargs) -> int:
    from rtmon import readers
    if iface == "async":
        # consume inside a real coroutine: between two items the event loop keeps running (a slow consumer
        # awaits), so any background producer task of the pipeline gets its chance to run ahead
        loop = asyncio.new_event_loop()

        async def consume() -> int:
            agen = dataset.as_numpy_iterator_async(split="train", shuffle=shuffle, repeat=repeat, **kwargs)
            count = 0
            async for _ in agen:
                count += 1
                await asyncio.sleep(0.004 if slow else 0)
                if count >= k:
                    break
            await asyncio.sleep(0.1)
            _STATE["pending_async"] = agen
            return count

        taken_async = loop.run_until_complete(consume())

        def close_async():
            agen = _STATE.pop("pending_async", None)
            try:
                if agen is not None:
                    loop.run_until_complete(agen.aclose())
                loop.run_until_complete(loop.shutdown_asyncgens())
            finally:
                loop.close()

        _STATE["close"] = close_async
        return taken_async
    iterator, close = readers.open_stream(dataset, iface, "train", shuffle=shuffle, repeat=repeat, **kwargs)
    _STATE["close"] = close
    taken = 0
    for _ in iterator:
        taken += 1
        if slow:
            time.sleep(0.003)
        if taken >= k:
            break
    return taken


def closer() -> None:
    close = _STATE.pop("close", None)
    if close:
        close()


def on_died(case: dict, record: dict) -> dict | None:
    if f"status {EXIT_MEMORY}" in record.get("died", "") or "memory limit" in record.get("died", ""):
        return {"violation": "unbounded-materialisation/memory-guard",
                "msg": f"{case}: resident memory exceeded {MEMORY_LIMIT >> 30} GiB while taking {case.get('k')} "
                       f"elements (the stream is being materialised instead of iterated lazily): {record.get('died')}"}
    return None


def on_timeout(case: dict, record: dict) -> dict | None:
    diag = record.get("diag", {})
    grown = record.get("rss_end", 0) - record.get("rss_start", 0)
    if diag.get("verdict") == "active" and grown > 400 * 1024 ** 2:
        return {"violation": "take-does-not-terminate/memory-grows",
                "msg": f"{case}: taking {case.get('k')} elements had not finished after {record.get('elapsed', 0):.0f}s, the "
                       f"process is busy and its resident memory grew by {grown >> 20} MiB (the stream is being materialised)"}
    if diag.get("verdict") == "quiescent":
        return {"violation": "take-blocked", "msg": f"{case}: quiescent process; stacks: {diag.get('stacks', '')[-1200:]}"}
    return None
