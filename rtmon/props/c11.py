"""C11 Shard-level custom metadata describes exactly the examples it labels.

Monitor: the recorder deep-copies the metadata argument at call time; after the session the auditor's
id -> shard map gives, for every example written with a non-empty value, the metadata recorded for the
shard that stores it; selection through `shard_filter` is evaluated for every distinct value.
Workloads include *the same dict object mutated in place between writes*, nested values, omission,
alternation, and shard-size boundaries.
"""
from __future__ import annotations

import random
from collections import Counter

from rtmon import common
from rtmon import audit as auditor
from rtmon import history as H
from rtmon.props import _hist

LEVEL = "exploration"
WORKERS = 14
CASE_TIMEOUT = 300
REQUIRED_OBS = ["ids_checked", "selections_evaluated", "aliased_mutations"]
RULE = ("metadata argument sequences: absent / repeated / alternating literal values / one mutable object "
        "updated in place between writes (aliasing) / nested values, across shard-size boundaries, 1..3 splits, "
        "1..2 sessions, all formats. Distinct = (format, eps, per write: split, metadata pattern token); "
        "non-trivial iff >=1 write carries non-empty metadata.")
ASSUMPTIONS = ["examples written with no metadata may legitimately sit in a labelled shard (documented "
               "retroactive labelling) and are excluded from 'only'"]

VALUES = [{"k": 1}, {"k": 2}, {"k": 3}, {"who": "a", "nest": {"x": [1, 2, {"y": None}]}},
          {"who": "b", "nest": {"x": [1, 2, {"y": None}]}}, {"k": 1, "extra": True}]


def gen_one(rng: random.Random) -> dict:
    fmt = rng.choice(["fb", "npz", "tfrec"])
    comp = rng.choice(["", "LZ4"] if fmt == "fb" else ["", "ZIP"] if fmt == "npz" else ["", "GZIP"])
    eps = rng.choice([1, 2, 3, 4, 6])
    style = rng.choice(["literal", "alias", "alias", "mixed", "nested-alias"])
    sessions = []
    for _ in range(rng.randint(1, 2)):
        splits = rng.sample(["train", "test", "holdout"], rng.randint(1, 2))
        writes = []
        n = rng.randint(2, 4 * eps + 3)
        current = None
        for _k in range(n):
            split = rng.choice(splits)
            roll = rng.random()
            write = {"split": split}
            if roll < 0.3:
                current = rng.choice(VALUES)
            elif roll < 0.4:
                current = None
            if style == "nested-alias":
                # ONE dict whose nested part is updated in place between writes (top-level keys untouched)
                if roll < 0.4 or _k == 0:
                    write["meta"] = {"obj": "nested", "set": {"who": "dev"},
                                     "nested_set": [["cfg", "rev", rng.randrange(4)]]}
                elif roll < 0.8:
                    write["meta"] = {"obj": "nested"}
                writes.append(write)
                continue
            if current is None and style in ("literal", "mixed") and rng.random() < 0.25:
                write["meta"] = {"lit": {}}          # an explicitly empty dict (not None, not omitted)
            if current is not None:
                use_alias = style == "alias" or (style == "mixed" and rng.random() < 0.5)
                if use_alias:
                    # the caller keeps ONE dict and updates it in place
                    write["meta"] = {"obj": "shared", "clear": True, "set": current}
                else:
                    write["meta"] = {"lit": current}
            writes.append(write)
        sessions.append({"kind": rng.choice(["root", "root", "subdir"]), "subdir": "m/n", "writes": writes,
                         "reopen": rng.random() < 0.3})
    return {"fmt": fmt, "comp": comp, "eps": eps, "sessions": sessions}


def gen_cases(tier: str, seed: int) -> list[dict]:
    rng = random.Random(seed * 1021 + 11)
    n = 400 if tier == "quick" else 8000
    return [{"hist": gen_one(rng)} for _ in range(n)]


def token(write: dict) -> str:
    meta = write.get("meta")
    if meta is None:
        return "-"
    value = meta.get("set") if "obj" in meta else meta.get("lit")
    if value == {} and "obj" not in meta:
        return "{}"
    if meta.get("obj") == "nested":
        return "@n" + (str(meta["nested_set"][0][2]) if meta.get("nested_set") else "=")
    return ("@" if "obj" in meta else "") + str(VALUES.index(value) if value in VALUES else "?")


def run_case(case: dict) -> dict:
    hist = case["hist"]
    work = common.new_workdir("c11")
    violations: list[dict] = []
    obs: Counter = Counter()
    try:
        root = work / "ds"

        def after(k, dataset, model):
            session = model.sessions[k]
            if not session.completed:
                violations.append({"key": "session-raised", "msg": f"session {k} raised {session.exc}"})
                return
            if k == len(hist["sessions"]) - 1:
                report = auditor.audit(root, check_digests=False)
                for key, msg in report.problems:
                    violations.append({"key": f"audit/{key}", "msg": msg})
                _hist.oracle_c11(root, report, model, violations, obs)

        model = H.run_history(root, hist, after_session=after)
        for write in model.writes:
            if not write.accepted:
                violations.append({"key": "valid-write-rejected", "msg": f"{write.exc}"})
        labelled = sum(1 for w in model.writes if w.meta)
        prev = None
        for session in hist["sessions"]:
            for write in session["writes"]:
                meta = write.get("meta")
                if meta and "obj" in meta and prev is not None and prev != (meta.get("set"), meta.get("nested_set")):
                    obs["aliased_mutations"] += 1
                    obs["nested_in_place_mutations"] += int(bool(meta.get("nested_set")))
                if meta and "obj" in meta:
                    prev = (meta.get("set"), meta.get("nested_set"))
        obs["labelled_writes"] = labelled
        sig = [hist["fmt"], hist["eps"], [[w["split"][0] + token(w) for w in s["writes"]] for s in hist["sessions"]]]
        return {"sig": sig, "nontrivial": labelled > 0, "violations": violations, "obs": dict(obs),
                "sample": {"fmt": hist["fmt"], "eps": hist["eps"], "pattern": sig[2]}}
    finally:
        common.rm(work)
