"""C19 Repeating iteration cycles through the whole split forever.

Monitor: prefixes of m in {2,3,5} epochs of repeat=True streams (islice + explicit close): every element
belongs to the split; unshuffled streams are the one-pass sequence repeated with period N; the Rust
interface yields a complete permutation of the split in every successive epoch; shuffled streams keep
per-id counts within the window the shuffle buffers allow.  Two repeating iterators alive at once (train
/ validation interleaving across epoch boundaries) are included.  "Forever" is restated as "m epochs for
every m tried".
"""
from __future__ import annotations

import itertools
import random
from collections import Counter

from rtmon import common
from rtmon import ds as dsmod
from rtmon import readers
from rtmon.props import _iter

LEVEL = "exploration"
NEEDS_RUST = True
WORKERS = 14
CASE_TIMEOUT = 150     # a case takes seconds; an undecidable stall (DESIGN §4 (iv)/(v)) is re-run once with 1.5x
QUIESCENCE_SCOPE = "process"   # helpers are polling feeders only
QUIESCENCE_AFTER = 25.0
REQUIRED_OBS = ["streams", "epoch_checks", "periodicity_checks", "rust_epoch_permutations", "interleaved_stream_pairs",
                "reiterated_repeating_pipelines", "streams_with_in_place_consumer"]
RULE = ("datasets (all formats, 1..many shards, nested lists) x interface x shuffle {0, small, >N} x "
        "file_parallelism {1,2,S,S+1,2S+3, 16} x epochs m in {2,3,5}. Distinct = (format, interface, shuffle class, "
        "parallelism vs shards class, m); every stream is non-trivial (m>=2).")
ASSUMPTIONS = ["bounded prefixes only; shuffled streams of the Python interfaces are checked for membership and "
               "bounded per-id imbalance, not for per-epoch permutation (not promised)"]


def gen_cases(tier: str, seed: int) -> list[dict]:
    rng = random.Random(seed * 1069 + 19)
    n = 70 if tier == "quick" else 1000
    return [{"hist": _iter.gen_dataset_history(rng, formats=["fb", "fb", "npz", "tfrec"] if k % 2 else None),
             "pseed": rng.randrange(1 << 30), "streams": 6 if tier == "quick" else 10} for k in range(n)]


def read_mutating(dataset, iface: str, split: str, limit: int, **kwargs):
    """Take `limit` elements of a repeating stream; each example is checked and then overwritten in place."""
    import numpy as np
    iterator, closer = readers.open_stream(dataset, iface, split, repeat=True, **kwargs)
    ids, problems = [], []
    try:
        for example in itertools.islice(iterator, limit):
            got, bad = dsmod.ids_of([example])
            ids += got
            problems += bad
            for value in example.values():
                if isinstance(value, np.ndarray) and value.flags.writeable and value.dtype.kind in "iuf":
                    value[...] = 0
    finally:
        closer()
    return ids, problems[:6]


def run_case(case: dict) -> dict:
    hist = case["hist"]
    fmt, comp = hist["fmt"], hist["comp"]
    rng = random.Random(case["pseed"])
    work = common.new_workdir("c19")
    violations: list[dict] = []
    obs: Counter = Counter()
    sigs = []
    try:
        dataset, model, failed = _iter.build(work / "ds", hist)
        if failed:
            return {"sig": "aborted", "nontrivial": False, "obs": {},
                    "violations": [{"key": "session-raised", "msg": failed[0].exc}]}
        splits = model.splits()
        ifaces = readers.interfaces_for(fmt, comp)
        one_pass: dict = {}

        def reference(split):
            if split not in one_pass:
                one_pass[split], _ = dsmod.ids_of(readers.read(dataset, "sync", split, shuffle=0, repeat=False))
            return one_pass[split]

        for _ in range(case["streams"]):
            split = rng.choice(splits)
            ref = reference(split)
            n = len(ref)
            n_shards = len(_iter.shard_paths(dataset, split))
            iface = rng.choice(ifaces)
            shuffle = rng.choice([0, 0, 2, n + 3])
            par = rng.choice(sorted({1, 2, n_shards, n_shards + 1, 2 * n_shards + 3, 16}))
            m = rng.choice([2, 3, 5])
            kwargs = {"file_parallelism": par} if "file_parallelism" in readers.ACCEPTS[iface] else {}
            label = f"{fmt}/{comp or 'none'} {iface} split={split} N={n} shards={n_shards} shuffle={shuffle} par={par} m={m}"
            mutating = iface != "tfds" and rng.random() < 0.3
            try:
                if mutating:
                    # a consumer that post-processes every example IN PLACE (normalisation, augmentation): what it does
                    # to the arrays it was handed must never show up in a later epoch
                    label += " in-place-consumer"
                    ids, problems = read_mutating(dataset, iface, split, m * n, shuffle=shuffle, **kwargs)
                    obs["streams_with_in_place_consumer"] += 1
                else:
                    ids, problems = dsmod.ids_of(readers.read(dataset, iface, split, shuffle=shuffle, repeat=True,
                                                              limit=m * n, **kwargs))
            except Exception as exc:  # pylint: disable=broad-exception-caught
                violations.append({"key": f"stream-raised/{iface}", "msg": f"{label}: {type(exc).__name__}: {str(exc)[:200]}"})
                continue
            obs["streams"] += 1
            obs["elements_checked"] += len(ids)
            sigs.append([fmt, iface, "s0" if shuffle == 0 else "s<N" if shuffle < n else "s>=N",
                         "p<S" if par < n_shards else "p=S" if par == n_shards else "p>S", m])
            if len(ids) < m * n:
                violations.append({"key": f"stream-ended-early/{iface}",
                                   "msg": f"{label}: stream ended after {len(ids)} of {m * n} requested elements"})
                continue
            foreign = [i for i in ids if i not in set(ref)]
            if foreign:
                violations.append({"key": f"foreign-example-in-stream/{iface}", "msg": f"{label}: {foreign[:4]}"})
            for problem in problems:
                violations.append({"key": f"example-integrity/{iface}", "msg": f"{label}: {problem}"})
            if shuffle == 0:
                obs["periodicity_checks"] += 1
                expected = list(itertools.islice(itertools.cycle(ref), m * n))
                if ids != expected:
                    first = next(i for i, (a, b) in enumerate(zip(ids, expected)) if a != b)
                    violations.append({"key": f"unshuffled-stream-not-periodic/{iface}",
                                       "msg": f"{label}: differs from the one-pass sequence repeated at position {first} "
                                              f"(epoch {first // n}, offset {first % n}): {ids[first:first + 4]} vs "
                                              f"{expected[first:first + 4]}"})
            if iface == "rust":
                obs["rust_epoch_permutations"] += m
                for epoch in range(m):
                    block = ids[epoch * n:(epoch + 1) * n]
                    if Counter(block) != Counter(ref):
                        violations.append({"key": "rust-epoch-not-a-permutation",
                                           "msg": f"{label}: epoch {epoch} misses "
                                                  f"{list((Counter(ref) - Counter(block)).elements())[:4]} and repeats "
                                                  f"{list((Counter(block) - Counter(ref)).elements())[:4]}"})
            obs["epoch_checks"] += m
            # whole stream: no id may be starved or over-represented beyond what buffering allows
            counts = Counter(ids)
            slack = 2 if shuffle == 0 else m            # shuffled Python paths only promise membership
            if shuffle == 0 and (max(counts.values()) - min(counts.get(i, 0) for i in ref)) > 0:
                violations.append({"key": f"epoch-imbalance/{iface}",
                                   "msg": f"{label}: over {m} epochs ids were yielded between "
                                          f"{min(counts.get(i, 0) for i in ref)} and {max(counts.values())} times"})
            del slack
        # ---- the tf.data pipeline object returned for a repeating stream is iterated, abandoned mid-epoch and
        #      iterated again (fit, then evaluate): every iteration is the periodic stream from its start
        # (Not on TFRecord datasets: there the pipeline is TensorFlow's own from end to end, and destroying an
        # endless native iterator while threads of an abandoned concurrent TFRecord stream are still inside
        # TensorFlow was seen to block inside TensorFlow - DESIGN §4, observation (v).)
        if "tfds" in ifaces and fmt != "tfrec":
            split = rng.choice(splits)
            ref = reference(split)
            par = rng.choice([1, 2, 3])
            label = f"{fmt} as_tfdataset split={split} N={len(ref)} shuffle=0 repeat=True file_parallelism={par}"
            try:
                pipeline = dataset.as_tfdataset(split, batch_size=0, shuffle=0, repeat=True, file_parallelism=par)
                for round_no, count in enumerate((len(ref) + len(ref) // 2 + 1, 2 * len(ref) + 1, 1)):
                    iterator = iter(pipeline.as_numpy_iterator())
                    got = [int(ex["id"]) for ex in itertools.islice(iterator, count)]
                    del iterator
                    obs["reiterated_repeating_pipelines"] += 1
                    expected = list(itertools.islice(itertools.cycle(ref), count))
                    if got != expected:
                        first = next((i for i, (a, b) in enumerate(zip(got, expected)) if a != b), min(len(got), len(expected)))
                        violations.append({"key": "reiterated-pipeline-not-periodic-from-start/tfds",
                                           "msg": f"{label}: iteration {round_no + 1} of the same pipeline object deviates at "
                                                  f"position {first}: {got[first:first + 4]} vs {expected[first:first + 4]} "
                                                  f"({len(got)} of {count} elements)"})
            except Exception as exc:  # pylint: disable=broad-exception-caught
                violations.append({"key": "stream-raised/tfds", "msg": f"{label} re-iterated: {type(exc).__name__}: {str(exc)[:200]}"})
        # ---- two repeating iterators alive at once, consumed alternately across epoch boundaries
        interleaved_ifaces = rng.sample(ifaces, min(2, len(ifaces)))
        if "rust" in ifaces and "rust" not in interleaved_ifaces:
            interleaved_ifaces.append("rust")      # the native iterator registry is shared state: always exercised
        for iface in interleaved_ifaces:
            if iface == "conc" and fmt == "tfrec":
                continue   # tf.device scope inside the suspended generator (see C02 notes)
            a_split, b_split = rng.choice(splits), rng.choice(splits)
            ref_a, ref_b = reference(a_split), reference(b_split)
            kwargs = {"file_parallelism": 2} if "file_parallelism" in readers.ACCEPTS[iface] else {}
            closers = []
            try:
                it_a, close_a = readers.open_stream(dataset, iface, a_split, shuffle=0, repeat=True, **kwargs)
                closers.append(close_a)
                it_b, close_b = readers.open_stream(dataset, iface, b_split, shuffle=0, repeat=True, **kwargs)
                closers.append(close_b)
                got_a, got_b = [], []
                total_a, total_b = 3 * len(ref_a) + 1, 2 * len(ref_b) + 1
                step = max(1, len(ref_a) // 2)
                while len(got_a) < total_a or len(got_b) < total_b:
                    for _k in range(step):
                        if len(got_a) < total_a:
                            got_a.append(int(next(it_a)["id"]))
                    for _k in range(2):
                        if len(got_b) < total_b:
                            got_b.append(int(next(it_b)["id"]))
                obs["interleaved_stream_pairs"] += 1
                for name, got, ref in (("A", got_a, ref_a), ("B", got_b, ref_b)):
                    expected = list(itertools.islice(itertools.cycle(ref), len(got)))
                    if got != expected:
                        first = next(i for i, (x, y) in enumerate(zip(got, expected)) if x != y)
                        violations.append({"key": f"interleaved-repeating-streams-interfere/{iface}",
                                           "msg": f"{fmt} streams over {a_split}/{b_split}: stream {name} deviates at "
                                                  f"position {first}: {got[first:first + 4]} vs {expected[first:first + 4]}"})
            except BaseException as exc:  # pylint: disable=broad-exception-caught
                if isinstance(exc, (KeyboardInterrupt, SystemExit)):
                    raise
                violations.append({"key": f"interleaved-repeating-streams-raised/{iface}",
                                   "msg": f"{fmt} {a_split}/{b_split}: {type(exc).__name__}: {str(exc)[:200]}"})
            finally:
                for closer in closers:
                    try:
                        closer()
                    except BaseException:  # pylint: disable=broad-exception-caught
                        pass
        # ---- two Python threads, each consuming several epochs of its own repeating stream (epoch boundaries of
        #      one thread fall while the other is inside its iterator); a deadlock is diagnosed by the
        #      orchestrator's quiescence oracle
        import threading
        from sedpack.io import Dataset
        thread_ifaces = [i for i in ifaces if i in ("rust", "sync", "conc") and not (i == "conc" and fmt == "tfrec")]
        if thread_ifaces:
            iface = "rust" if "rust" in thread_ifaces else rng.choice(thread_ifaces)
            results: dict = {}

            def consume(name: str, split: str, epochs: int) -> None:
                try:
                    kwargs = {"file_parallelism": 2} if "file_parallelism" in readers.ACCEPTS[iface] else {}
                    handle = Dataset(dataset.path)
                    want = reference(split)
                    got, _ = dsmod.ids_of(readers.read(handle, iface, split, shuffle=0, repeat=True,
                                                      limit=epochs * len(want) + 1, **kwargs))
                    results[name] = got == list(itertools.islice(itertools.cycle(want), len(got)))
                except BaseException as exc:  # pylint: disable=broad-exception-caught
                    results[name] = f"{type(exc).__name__}: {str(exc)[:160]}"

            for split in splits:
                reference(split)
            threads = [threading.Thread(target=consume, args=(f"t{k}", rng.choice(splits), 3 + k)) for k in range(2)]
            for thread in threads:
                thread.start()
            for thread in threads:
                thread.join()
            obs["two_thread_stream_pairs"] += 1
            for name, outcome in results.items():
                if outcome is not True:
                    violations.append({"key": f"repeating-streams-in-two-threads/{iface}",
                                       "msg": f"{fmt} {name}: {'stream deviates from the periodic sequence' if outcome is False else outcome}"})
        return {"sigs": sigs, "sig": None, "nontrivial": True, "violations": violations, "obs": dict(obs),
                "sample": {"fmt": fmt, "splits": {s: len(reference(s)) for s in splits}}}
    finally:
        common.rm(work)
