"""Shared machinery of the iteration properties (C02, C03, C19): dataset building from a history, one
monitored pass (FIFO gate where the pipeline allows it, delay injection otherwise)."""
from __future__ import annotations

import random
from collections import Counter
from pathlib import Path

from rtmon import ds as dsmod
from rtmon import history as H
from rtmon import readers
from rtmon.monitors import delays
from rtmon.monitors.fifo_gate import Gate, gateable


def gen_dataset_history(rng: random.Random, formats=None, min_shards: int = 1) -> dict:
    """A valid-writes-only history with diverse geometry (1..3 splits, one or many shards, short last
    shard, nested lists through sub-directory fillers and a multi-writer session)."""
    hist = H.gen_history(rng, max_sessions=3, formats=formats, subdir_bias=0.4)
    # make sure 'train' has something
    if not any(w["split"] == "train" for s in hist["sessions"] for w in
               (s.get("writes") or [x for ws in s.get("writers", []) for x in ws])):
        hist["sessions"][0].setdefault("writes", []).extend({"split": "train"} for _ in range(hist["eps"] + 1))
        if hist["sessions"][0]["kind"] == "multi":
            hist["sessions"][0]["writers"][0].extend({"split": "train"} for _ in range(hist["eps"] + 1))
    return hist


def build(root: Path, hist: dict):
    from sedpack.io import Dataset  # pylint: disable=import-outside-toplevel
    model = H.run_history(root, hist)
    failed = [s for s in model.sessions if not s.completed]
    return Dataset(root), model, failed


def shard_paths(dataset, split: str) -> list[Path]:
    return [dataset.path / s.file_infos[0].file_path for s in dataset.shard_info_iterator(split)]


def read_with_stall(dataset, iface, split, stall: float, **kwargs):
    """Like readers.read, but the consumer stalls once (after the first element) for `stall` seconds while the
    pipeline's workers run dry."""
    import time  # pylint: disable=import-outside-toplevel
    iterator, closer = readers.open_stream(dataset, iface, split, **kwargs)
    out = []
    try:
        for k, element in enumerate(iterator):
            out.append(element)
            if k == 0:
                time.sleep(stall)
        return out
    finally:
        closer()


def run_pass(dataset, fmt: str, iface: str, split: str, work: Path, *, shuffle: int, par: int | None,
             process: bool, perturb: dict, repeat: bool = False, limit: int | None = None, extra=None):
    """One monitored pass.  perturb = {"gate": policy, "seed": n} | {"delay": seed} | {}.
    Returns (ids, payload problems, observation dict)."""
    kwargs = dict(extra or {})
    if par is not None and "file_parallelism" in readers.ACCEPTS[iface]:
        kwargs["file_parallelism"] = par
    if process == "none-some":
        # "parse or return None, filter later": a legitimate transformation whose result is sometimes None
        def process_record(example):
            return None if int(example["id"]) % 3 == 0 else example
    else:
        process_record = readers.double_plus_one if process else None
    observation: dict = {}
    if "gate" in perturb and gateable(fmt, iface) and not repeat:
        paths = shard_paths(dataset, split)
        with Gate(paths, work, policy=perturb["gate"], seed=perturb.get("seed", 0),
                  expect=min(par or 1, len(paths)) if iface != "sync" else 1) as gate:
            examples = readers.read(dataset, iface, split, shuffle=shuffle, repeat=repeat,
                                    process_record=process_record, limit=limit, **kwargs)
        observation = {"gated": 1, "release_order": gate.release_order(), "max_ready": gate.max_ready(),
                       "out_of_order_releases": gate.out_of_order_releases(), "shards": len(paths)}
    elif "stall" in perturb:
        examples = read_with_stall(dataset, iface, split, perturb["stall"], shuffle=shuffle, repeat=repeat,
                                   process_record=process_record, **kwargs)
        observation = {"gated": 0, "stalled": 1}
    else:
        with delays.inject(perturb.get("delay", perturb.get("seed"))) as stats:
            examples = readers.read(dataset, iface, split, shuffle=shuffle, repeat=repeat,
                                    process_record=process_record, limit=limit, **kwargs)
        observation = {"gated": 0, "delay_injections": stats["sleeps"]}
    raw_ids = []
    problems = []
    nones = sum(1 for ex in examples if ex is None)
    examples = [ex for ex in examples if ex is not None]
    observation["none_results"] = nones
    for ex in examples:
        raw_ids.append(int(ex["id"]))
    if process == "none-some":
        ids = raw_ids
    elif process:
        bad = [i for i in raw_ids if i % 2 == 0]
        ids = [(i - 1) // 2 for i in raw_ids]
        if bad:
            problems.append(f"process_record not applied exactly once: ids {bad[:4]} are not of the form 2*id+1")
        # applied twice would give 4*id+3: detected because (i-1)//2 is then not a written id
    else:
        ids = raw_ids
    # payload check (x is untouched by the transformation)
    import numpy as np  # pylint: disable=import-outside-toplevel
    for ident, ex in zip(ids, examples):
        want = dsmod.payload(ident)
        got = np.asarray(ex["x"])
        if got.shape != want.shape or got.astype(np.float32).tobytes() != want.tobytes():
            if len(problems) < 4:
                problems.append(f"payload of id {ident} does not match (torn, mixed-up or foreign example)")
    return ids, problems, observation


def parallelism_values(n_shards: int) -> list[int]:
    return sorted({1, 2, max(1, n_shards - 1), n_shards, n_shards + 1, 2 * n_shards + 3})


def shuffle_values(n_examples: int) -> list[int]:
    return sorted({0, 1, 2, 3, max(1, n_examples - 1), n_examples, n_examples + 1, 10 * n_examples})


def expected_counter(model: H.Model, split: str) -> Counter:
    return model.expected_counter(split)
