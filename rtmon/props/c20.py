"""C20 Reopening or relocating restores the full dataset; newer formats are refused.

Monitor: (a) random descriptions — reloaded description == the writer's (model equality and dump
equality) and the shard-level custom metadata read from disk == the recorder's snapshots; (b) relocation —
the dataset directory is copied / moved to nested, unicode, blank-containing targets and reached by
absolute and relative spellings (incl. './', 'sub/../'): open, check (with the recorded root checksums),
iterate identically, accept further writing, check again; (c) version gate — recorded and running
semantic-version triples are varied (running version patched, it is read at call time): refused iff the
recorded version is newer.
"""
from __future__ import annotations

import json
import os
import random
import shutil
from collections import Counter
from pathlib import Path

from rtmon import common
from rtmon import ds as dsmod
from rtmon import history as H

LEVEL = "exploration"
WORKERS = 14
CASE_TIMEOUT = 300
REQUIRED_OBS = ["descriptions_compared", "relocations", "version_decisions", "writes_after_relocation",
                "other_release_processes"]
RULE = ("(a) descriptions: unicode text (astral, control, quotes), nested custom metadata (strings, ints incl. big, "
        "finite floats, booleans, nulls, lists, string-keyed maps) at dataset/attribute/shard level x every "
        "compression/format/algorithm setting; (b) relocation target classes (nested, unicode, blanks, relative to cwd, "
        "'./' and 'sub/..' spellings) x copy/move; (c) version triples around the running version incl. multi-digit "
        "components. Distinct = description shape / (target class, spelling, copy|move, format) / (recorded, running). "
        "All cases non-trivial.")
ASSUMPTIONS = ["JSON-representable metadata with finite numbers and valid unicode only",
               "symbolic links are not used for relocation"]

TEXTS = ["", "plain", "ünïcödé ✓", "astral 😀🧪 𝔘", "quotes \" ' \\ / \\n", "control \t\n\r\x0b\x1f end", "  lead/trail  ",
         "日本語のテキスト", "null\x00inside", "line\u2028sep para\u2029sep nel\x85 end", "bom\ufeff zwj\u200d rtl\u202e", "{\"looks\": \"like json\"}", "a" * 300]


def rand_json(rng: random.Random, depth: int = 0):
    roll = rng.random()
    if depth > 2 or roll < 0.35:
        return rng.choice([None, True, False, 0, 1, -1, 2 ** 53 + 1, -2 ** 63, 10 ** 30, 0.5, -0.0, 1e-300, 1.5e300,
                           1.0, 3.0e10, rng.choice(TEXTS), rng.random(), rng.randrange(-1000, 1000)])
    if roll < 0.65:
        return [rand_json(rng, depth + 1) for _ in range(rng.randint(0, 4))]
    return {rng.choice(["k", "key two", "ключ", "", "a.b", "0", "nested"]) + str(rng.randrange(3)): rand_json(rng, depth + 1)
            for _ in range(rng.randint(0, 4))}


def rand_meta(rng: random.Random) -> dict:
    return {f"m{k}": rand_json(rng, 1) for k in range(rng.randint(0, 3))}


def gen_cases(tier: str, seed: int) -> list[dict]:
    rng = random.Random(seed * 1087 + 20)
    cases = []
    n_desc = 120 if tier == "quick" else 2500
    for _ in range(n_desc):
        fmt = rng.choice(dsmod.FORMATS)
        cases.append({"kind": "description", "fmt": fmt, "comp": rng.choice(dsmod.COMPRESSIONS[fmt]),
                      "dseed": rng.randrange(1 << 30)})
    targets = ["moved", "deep/er/nest", "ünï ✓ 日本", "with blank  s", "trailing.dot.", "-dash", "a'b\"c",
               # decomposed unicode (e + combining acute, u + combining diaeresis): a different byte string than the
               # composed spelling, and on Linux a different directory
               "de\u0301compose\u0301/u\u0308ber"]
    spellings = ["abs", "rel", "dot-rel", "updown", "abs-updown", "rel-parent", "same-relative-name"]
    n_rel = 60 if tier == "quick" else 900
    for k in range(n_rel):
        fmt = rng.choice(dsmod.FORMATS)
        cases.append({"kind": "relocate", "fmt": fmt, "comp": rng.choice(dsmod.COMPRESSIONS[fmt]),
                      "target": targets[k % len(targets)], "spelling": spellings[(k // len(targets)) % len(spellings)],
                      "move": bool(k % 2), "hseed": rng.randrange(1 << 30)})
    running = ["0.0.7", "0.0.7", "1.2.10", "0.10.0", "2.0.0", "1.9.9", "10.0.0"]
    for run in sorted(set(running)):
        a, b, c = (int(x) for x in run.split("."))
        triples = {(a, b, c), (a, b, c + 1), (a, b, max(0, c - 1)), (a, b + 1, 0), (a, max(0, b - 1), c + 5),
                   (a + 1, 0, 0), (max(0, a - 1), b + 9, c + 9), (a, b, c + 3), (a, b, 10 * c + 10), (a, b, 100 + c),
                   (a, 10 * b + 10, 0), (10 * a + 10, 0, 0), (a, b, 0), (0, 0, 0), (a, b + 10, c)}
        if tier == "thorough":
            triples |= {(rng.randrange(0, 12), rng.randrange(0, 30), rng.randrange(0, 120)) for _ in range(40)}
        cases.append({"kind": "version", "running": run, "recorded": sorted(".".join(map(str, t)) for t in triples)})
    # another release as a whole (fresh interpreter whose sedpack.__version__ differs) writing and reading through the
    # ordinary API: nothing is edited by hand
    import sedpack
    a, b, c = (int(x) for x in sedpack.__version__.split("."))
    others = [(a, b, c + 1), (a, b, max(0, c - 1)), (a + 1, 0, 0), (0, 0, 1), (a, b, c), (a, b + 1, 0)]
    for other in (others[:4] if tier == "quick" else others + [(a, b, c + 10), (a + 10, 0, 0)]):
        cases.append({"kind": "other-release", "version": ".".join(map(str, other))})
    if tier == "quick":
        rng.shuffle(cases)
    return cases


def run_case(case: dict) -> dict:
    work = common.new_workdir("c20")
    cwd = os.getcwd()
    try:
        if case["kind"] == "description":
            return run_description(case, work)
        if case["kind"] == "relocate":
            return run_relocate(case, work)
        if case["kind"] == "other-release":
            return run_other_release(case, work)
        return run_version(case, work)
    finally:
        os.chdir(cwd)
        common.rm(work)


def run_description(case: dict, work: Path) -> dict:
    from sedpack.io import Dataset, Metadata
    from sedpack.io.metadata import Attribute, DatasetStructure
    rng = random.Random(case["dseed"])
    fmt, comp = case["fmt"], case["comp"]
    violations: list[dict] = []
    obs: Counter = Counter()
    algs = rng.sample(["md5", "sha1", "sha224", "sha256", "sha384", "sha512", "sha3_224", "sha3_256", "sha3_384",
                       "sha3_512", "xxh32", "xxh64", "xxh128"], rng.randint(0, 4))
    attrs = [Attribute(name="id", dtype="int64", shape=(), custom_metadata=rand_meta(rng)),
             Attribute(name="x", dtype="float32", shape=(3,), custom_metadata=rand_meta(rng))]
    metadata_kwargs = {"description": rng.choice(TEXTS), "custom_metadata": rand_meta(rng)}
    if rng.random() < 0.5:
        metadata_kwargs["dataset_license"] = rng.choice(TEXTS)
    if rng.random() < 0.5:
        metadata_kwargs["dataset_version"] = rng.choice(["1.0.0", "2.3.4", "0.0.1-rc1", rng.choice(TEXTS)])
    if rng.random() < 0.5:
        metadata_kwargs["download_from"] = rng.choice(["https://example.org/ä?x=1&y=2", ""] + TEXTS[:3])
    structure = DatasetStructure(saved_data_description=attrs, compression=comp, shard_file_type=fmt,
                                 examples_per_shard=rng.choice([1, 2, 256, 10 ** 6]),
                                 hash_checksum_algorithms=tuple(algs))
    root = work / rng.choice(["ds", "d s", "ď"])
    dataset = Dataset.create(root, Metadata(**metadata_kwargs), structure)
    # the writer may edit the description after creating the dataset and save it without writing shards
    edit = rng.choice(["none", "write_config", "empty-filler", "before-fill"])
    if edit != "none":
        from sedpack.io import Metadata as _Metadata
        metadata_kwargs["description"] = rng.choice(TEXTS) + " (edited)"
        metadata_kwargs["custom_metadata"] = rand_meta(rng)
        dataset.metadata = _Metadata(**metadata_kwargs)
        attrs[1].custom_metadata = rand_meta(rng)
        structure.saved_data_description = attrs
        dataset.dataset_structure = structure
        if edit == "write_config":
            dataset.write_config(updated_infos=[])
        elif edit == "empty-filler":
            with dataset.filler():
                pass
        obs[f"description_edit:{edit}"] += 1
    shard_metas = [rand_meta(rng) for _ in range(3)]
    written = []
    with dataset.filler() as filler:
        for k in range(rng.randint(0, 5) if edit != "before-fill" else rng.randint(1, 4)):
            meta = rng.choice(shard_metas)
            ident = dsmod.make_id("train", 0, 0, k)
            filler.write_example(values=dsmod.example(ident), split="train", custom_metadata=meta)
            written.append((ident, json.loads(json.dumps(meta))))
    reopened = Dataset(root)
    obs["descriptions_compared"] += 1
    mine, theirs = dataset._dataset_info, reopened._dataset_info   # pylint: disable=protected-access
    if mine != theirs or mine.model_dump() != theirs.model_dump() or \
            repr(mine.model_dump()) != repr(theirs.model_dump()):
        diffs = [k for k in mine.model_dump() if repr(mine.model_dump()[k]) != repr(theirs.model_dump().get(k))]
        violations.append({"key": "reloaded-description-differs",
                           "msg": f"fields {diffs}: wrote {repr(mine.model_dump())[:300]} read {repr(theirs.model_dump())[:300]}"})
    for field in ("description", "dataset_license", "dataset_version", "download_from"):
        if field in metadata_kwargs and getattr(reopened.metadata, field) != metadata_kwargs[field]:
            violations.append({"key": f"metadata-field-changed/{field}",
                               "msg": f"{metadata_kwargs[field]!r} -> {getattr(reopened.metadata, field)!r}"})
    if repr(reopened.metadata.custom_metadata) != repr(metadata_kwargs["custom_metadata"]):
        violations.append({"key": "dataset-custom-metadata-changed",
                           "msg": f"{metadata_kwargs['custom_metadata']!r} -> {reopened.metadata.custom_metadata!r}"})
    for before, after in zip(attrs, reopened.dataset_structure.saved_data_description):
        if repr(before.model_dump()) != repr(after.model_dump()):
            violations.append({"key": "attribute-declaration-changed", "msg": f"{before!r} -> {after!r}"})
    if reopened.dataset_structure.model_dump() != structure.model_dump():
        violations.append({"key": "storage-settings-changed", "msg": f"{structure!r} -> {reopened.dataset_structure!r}"})
    if written:
        from rtmon import audit as auditor
        report = auditor.audit(root, check_digests=False)
        shard_of = {i: s for s in report.shards for i in (s.ids or [])}
        infos = {str(s.file_infos[0].file_path): s for s in reopened.shard_info_iterator("train")}
        for ident, meta in written:
            obs["shard_metadata_compared"] += 1
            shard = shard_of.get(ident)
            if shard is None:
                violations.append({"key": "example-lost", "msg": str(ident)})
                continue
            loaded = infos[shard.path].custom_metadata
            # values that compare equal in Python (1 == 1.0 == True) are one metadata value for the filler, which
            # keeps the first spelling it saw for the shard: equality, not representation, is what is promised
            if meta and loaded != meta:
                violations.append({"key": "shard-custom-metadata-changed", "msg": f"wrote {meta!r} loaded {loaded!r}"})
    return {"sig": ["description", fmt, comp, len(algs), common.stable_hash(metadata_kwargs)], "nontrivial": True,
            "violations": violations, "obs": dict(obs),
            "sample": {"description": metadata_kwargs["description"][:40], "fmt": fmt, "algorithms": algs,
                       "custom_metadata": repr(metadata_kwargs["custom_metadata"])[:200]}}


def spelled(work: Path, target: Path, spelling: str) -> tuple[str, Path]:
    """Return (path string to open the relocated dataset with, cwd to use)."""
    if spelling == "abs":
        return str(target), work
    if spelling == "rel":
        return os.path.relpath(target, work), work
    if spelling == "dot-rel":
        return "./" + os.path.relpath(target, work), work
    if spelling == "updown":
        return "sub/../" + os.path.relpath(target, work), work          # needs work/sub to exist
    if spelling == "abs-updown":
        return str(target.parent / "zz" / ".." / target.name), work      # needs parent/zz
    if spelling == "same-relative-name":
        return target.name, target.parent                  # "ds" opened from inside the new parent directory
    if spelling == "rel-parent":
        inner = work / "inner" / "cwd"
        return os.path.relpath(target, inner), inner
    raise ValueError(spelling)


def run_relocate(case: dict, work: Path) -> dict:
    from sedpack.io import Dataset, DatasetFiller
    from rtmon import audit as auditor, readers
    fmt, comp = case["fmt"], case["comp"]
    rng = random.Random(case["hseed"])
    violations: list[dict] = []
    obs: Counter = Counter()
    hist = H.gen_history(rng, max_sessions=3, formats=[fmt])
    hist["comp"] = comp
    hist["hashes"] = rng.choice([("sha256",), ("md5", "xxh64"), ("sha1",), ()])
    original = work / "origin" / "ds"
    original.parent.mkdir(parents=True)
    keep: dict = {}
    model = H.run_history(original, hist, keep_handle=keep)
    if not all(s.completed for s in model.sessions):
        return {"sig": "aborted", "nontrivial": False, "obs": {},
                "violations": [{"key": "session-raised", "msg": str([s.exc for s in model.sessions])}]}
    writer = keep["dataset"]
    root_sums = writer.current_metadata_checksums()
    splits = model.splits()
    before = {s: dsmod.ids_of(readers.read(Dataset(original), "sync", s, shuffle=0, repeat=False))[0] for s in splits}
    before_tree = auditor.tree_digest(original)
    target = work / "dest" / case["target"]
    if case["spelling"] == "same-relative-name":
        # the same relative name ("ds") is used from two working directories in one process: first the
        # original from its own parent, later the relocated copy from the new parent
        target = work / "dest" / case["target"] / original.name
        os.chdir(original.parent)
        early = Dataset(original.name)
        first_ids = {s: dsmod.ids_of(readers.read(early, "sync", s, shuffle=0, repeat=False))[0] for s in splits}
        if first_ids != before:
            violations.append({"key": "relative-open-differs", "msg": "original opened by its relative name"})
    target.parent.mkdir(parents=True, exist_ok=True)
    (work / "sub").mkdir()
    (work / "inner" / "cwd").mkdir(parents=True)
    if case["move"]:
        shutil.move(str(original), str(target))
    else:
        shutil.copytree(original, target)
    (target.parent / "zz").mkdir(exist_ok=True)
    path_string, cwd = spelled(work, target, case["spelling"])
    os.chdir(cwd)
    label = f"{fmt} {'move' if case['move'] else 'copy'} -> {case['target']!r} opened as {path_string!r}"
    obs["relocations"] += 1
    try:
        moved = Dataset(path_string)
    except Exception as exc:  # pylint: disable=broad-exception-caught
        violations.append({"key": "relocated-open-raised", "msg": f"{label}: {type(exc).__name__}: {exc}"[:400]})
        return finish(case, violations, obs)
    if moved._dataset_info != writer._dataset_info:   # pylint: disable=protected-access
        violations.append({"key": "relocated-description-differs", "msg": label})
    try:
        moved.check(show_progressbar=False, hash_checksums_values=root_sums)
    except Exception as exc:  # pylint: disable=broad-exception-caught
        violations.append({"key": "relocated-check-raised", "msg": f"{label}: {type(exc).__name__}: {exc}"[:400]})
    for split in splits:
        for iface in rng.sample(readers.interfaces_for(fmt, comp), 2):
            try:
                ids, problems = dsmod.ids_of(readers.read(moved, iface, split, shuffle=0, repeat=False))
            except Exception as exc:  # pylint: disable=broad-exception-caught
                violations.append({"key": f"relocated-iteration-raised/{iface}", "msg": f"{label}: {type(exc).__name__}: {exc}"[:400]})
                continue
            obs["iterations_compared"] += 1
            if ids != before[split] or problems:
                violations.append({"key": f"relocated-iteration-differs/{iface}", "msg": f"{label} split {split}"})
    # further writing: root filler, a fresh sub-directory, and a reused one if the history had one
    extra: dict = {s: [] for s in dsmod.SPLITS}
    used_subdirs = [s["subdir"] for s in hist["sessions"] if s["kind"] == "subdir"]
    plans = [("root", None), ("subdir", "after/move")] + ([("subdir", used_subdirs[0])] if used_subdirs else [])
    for k, (kind, subdir) in enumerate(plans):
        # one live handle at a time: either the same handle throughout or a fresh one per session
        handle = moved if case["hseed"] % 2 == 0 else Dataset(path_string)
        try:
            cm = handle.filler() if kind == "root" else DatasetFiller(handle, relative_path_from_split=Path(subdir))
            with cm as filler:
                for j in range(3):
                    split = rng.choice(list(dsmod.SPLITS))
                    ident = dsmod.make_id(split, 100 + k, 0, j)
                    filler.write_example(values=dsmod.example(ident), split=split)
                    extra[split].append(ident)
            obs["writes_after_relocation"] += 1
        except Exception as exc:  # pylint: disable=broad-exception-caught
            violations.append({"key": f"write-after-relocation-raised/{kind}",
                               "msg": f"{label} ({kind} {subdir}): {type(exc).__name__}: {exc}"[:400]})
            return finish(case, violations, obs)
    if case["hseed"] % 2 == 0:
        # the handle that was opened first, iterated, and written through must see what it wrote
        for split in dsmod.SPLITS:
            want = Counter(before.get(split, [])) + Counter(extra[split])
            if want and split in moved._dataset_info.splits:   # pylint: disable=protected-access
                got = Counter(dsmod.ids_of(readers.read(moved, "sync", split, shuffle=0, repeat=False))[0])
                obs["same_handle_rereads"] += 1
                if got != want:
                    violations.append({"key": "handle-sees-stale-data-after-writing",
                                       "msg": f"{label} split {split}: {sum(got.values())} of {sum(want.values())} examples"})
    final = Dataset(path_string)
    try:
        final.check(show_progressbar=False)
    except Exception as exc:  # pylint: disable=broad-exception-caught
        violations.append({"key": "check-after-further-writing-raised", "msg": f"{label}: {exc}"[:300]})
    for split in dsmod.SPLITS:
        want = Counter(before.get(split, [])) + Counter(extra[split])
        if not want:
            continue
        got = Counter(dsmod.ids_of(readers.read(final, "sync", split, shuffle=0, repeat=False))[0])
        if got != want:
            violations.append({"key": "relocated-dataset-not-append-only", "msg": f"{label} split {split}"})
    report = auditor.audit(Path(os.path.abspath(path_string)))
    for key, msg in report.problems:
        violations.append({"key": f"audit-after-relocation/{key}", "msg": f"{label}: {msg}"})
    if not case["move"] and auditor.tree_digest(original) != before_tree:
        violations.append({"key": "copy-source-changed", "msg": label})
    stray = [p for p in (work / "origin").rglob("*") if case["move"]]
    if stray:
        violations.append({"key": "files-written-at-old-location", "msg": f"{label}: {stray[:3]}"})
    return finish(case, violations, obs)


def finish(case: dict, violations: list, obs: Counter) -> dict:
    return {"sig": ["relocate", case["fmt"], case["target"], case["spelling"], case["move"]], "nontrivial": True,
            "violations": violations, "obs": dict(obs),
            "sample": {"relocate": case["target"], "spelling": case["spelling"], "move": case["move"]}}


def run_other_release(case: dict, work: Path) -> dict:
    import os
    import subprocess
    import sedpack
    from sedpack.io import Dataset
    violations: list[dict] = []
    obs: Counter = Counter()
    mine, theirs, out_path = work / "written_by_this_release", work / "written_by_other_release", work / "out.json"
    dataset = dsmod.create(mine, "npz", "", 2)
    with dataset.filler() as filler:
        filler.write_example(values=dsmod.example(dsmod.make_id("train", 0, 0, 0)), split="train")
    proc = subprocess.run([common.PY, "-m", "rtmon.props.c20_child", case["version"], str(mine), str(theirs), str(out_path)],
                          cwd=str(common.VERIF), env=dict(os.environ, PYTHONPATH=str(common.VERIF)),
                          capture_output=True, text=True, timeout=240, check=False)
    if not out_path.is_file():
        return {"sig": "child-failed", "nontrivial": False, "violations": [], "obs": {},
                "inconclusive": [f"other-release child failed rc={proc.returncode}: {proc.stderr[-400:]}"]}
    out = json.loads(out_path.read_text())
    real = sedpack.__version__
    real_t, other_t = tuple(int(x) for x in real.split(".")), tuple(int(x) for x in case["version"].split("."))
    obs["other_release_processes"] += 1
    obs["version_decisions"] += 2
    # (a) the other release met the dataset this release wrote
    if real_t > other_t and out["open"] == "loaded":
        violations.append({"key": "newer-version-loaded/by-older-release",
                           "msg": f"release {case['version']} loaded a dataset written through the API by release {real}"})
    if real_t <= other_t and out["open"] != "loaded":
        violations.append({"key": "same-or-older-version-refused/by-other-release",
                           "msg": f"release {case['version']} refused a dataset written by release {real}: {out['open']}"})
    # (b) this release meets the dataset the other release wrote
    if out.get("write") != "ok":
        violations.append({"key": "other-release-write-raised", "msg": f"{case['version']}: {out.get('write')}"})
    else:
        try:
            loaded = Dataset(theirs)
            outcome = "loaded"
        except Exception as exc:  # pylint: disable=broad-exception-caught
            loaded, outcome = None, f"refused {type(exc).__name__}: {str(exc)[:160]}"
        if other_t > real_t and loaded is not None:
            violations.append({"key": "newer-version-loaded/written-by-newer-release",
                               "msg": f"a dataset written through the API by release {case['version']} loaded under release {real}"})
        if other_t <= real_t:
            if loaded is None:
                violations.append({"key": "same-or-older-version-refused/written-by-older-release",
                                   "msg": f"a dataset written by release {case['version']}: {outcome}"})
            elif loaded.metadata.sedpack_version != case["version"]:
                violations.append({"key": "recorded-version-not-reconstructed",
                                   "msg": f"a dataset written by release {case['version']} opens with sedpack_version="
                                          f"{loaded.metadata.sedpack_version!r}"})
    return {"sig": ["other-release", case["version"]], "nontrivial": True, "violations": violations, "obs": dict(obs),
            "sample": {"other_release": case["version"], "it_opened_ours": out["open"][:40]}}


def run_version(case: dict, work: Path) -> dict:
    import sedpack
    from sedpack.io import Dataset
    violations: list[dict] = []
    obs: Counter = Counter()
    root = work / "ds"
    dsmod.create(root, "npz", "", 2)
    info_path = root / "dataset_info.json"
    pristine = info_path.read_text()
    real = sedpack.__version__
    sigs = []
    try:
        sedpack.__version__ = case["running"]
        run_t = tuple(int(x) for x in case["running"].split("."))
        for recorded in case["recorded"]:
            doc = json.loads(pristine)
            doc["metadata"]["sedpack_version"] = recorded
            info_path.write_text(json.dumps(doc))
            rec_t = tuple(int(x) for x in recorded.split("."))
            try:
                Dataset(root)
                loaded = True
            except Exception as exc:  # pylint: disable=broad-exception-caught
                loaded = False
                reason = f"{type(exc).__name__}: {str(exc)[:120]}"
            obs["version_decisions"] += 1
            sigs.append([recorded, case["running"]])
            if rec_t > run_t and loaded:
                violations.append({"key": "newer-version-loaded",
                                   "msg": f"dataset recorded by {recorded} loaded by running version {case['running']}"})
            if rec_t <= run_t and not loaded:
                violations.append({"key": "same-or-older-version-refused",
                                   "msg": f"dataset recorded by {recorded} refused by {case['running']}: {reason}"})
            obs["refused" if not loaded else "loaded"] += 1
        # the untouched file, exactly as the ordinary API of the real running version wrote it, met by other
        # running versions: the version that wrote it must be what the gate compares with (nothing was edited)
        info_path.write_text(pristine)
        real_t = tuple(int(x) for x in real.split("."))
        for running in ("0.0.1", f"{real_t[0]}.{real_t[1]}.{max(0, real_t[2] - 1)}", real,
                        f"{real_t[0]}.{real_t[1]}.{real_t[2] + 1}", f"{real_t[0] + 1}.0.0"):
            sedpack.__version__ = running
            run_t = tuple(int(x) for x in running.split("."))
            try:
                Dataset(root)
                loaded = True
            except Exception as exc:  # pylint: disable=broad-exception-caught
                loaded = False
                reason = f"{type(exc).__name__}: {str(exc)[:120]}"
            obs["version_decisions"] += 1
            obs["unedited_description_decisions"] += 1
            if real_t > run_t and loaded:
                violations.append({"key": "newer-version-loaded/unedited-description",
                                   "msg": f"a dataset written through the API by version {real} loaded under running version {running}"})
            if real_t <= run_t and not loaded:
                violations.append({"key": "same-or-older-version-refused/unedited-description",
                                   "msg": f"a dataset written by version {real} refused by running version {running}: {reason}"})
    finally:
        sedpack.__version__ = real
    return {"sigs": sigs, "sig": None, "nontrivial": True, "violations": violations, "obs": dict(obs),
            "sample": {"running": case["running"], "recorded": case["recorded"][:6]}}
