"""C16 Recorded checksums are the standard digests of the exact file bytes.

Monitor: postcondition contract on `sedpack.io.utils.hash_checksums` (evaluated on every call, also
those made while datasets are written) + explicit comparison against *independent* digest
implementations: coreutils md5sum/sha*sum, `openssl dgst -sha3-*`, a pure-Python XXH32/XXH64 written
from the specification, published XXH known answers and one-shot (non-streaming) xxhash/hashlib calls.
Dataset cases audit every digest stored in shards_list.json / dataset_info.json.
"""
from __future__ import annotations

import itertools
import os
import random
import subprocess
from pathlib import Path

from rtmon import common

LEVEL = "exploration"
NEEDS_DEPS = True
WORKERS = 12
CASE_TIMEOUT = 300
REQUIRED_OBS = ["files_hashed", "contract_evals_hash_checksums", "external_tool_digests",
                "stored_digests_checked", "intermediate_audits", "lists_needing_more_buffers_in_bytes_than_in_characters"]
RULE = ("file cases: (size class around multiples of the 128 KiB read buffer, content class, algorithm "
        "tuple incl. permutations and repetitions); dataset cases: every digest stored in the metadata of "
        "a written dataset. Distinct = (size, content class, algorithm tuple) / (format, algorithms). All "
        "cases are non-trivial (each compares >=1 digest with an independent implementation).")
ASSUMPTIONS = ["coreutils/openssl/hashlib one-shot digests are correct (they are the 'standard digest')",
               "xxh128 has no second implementation here: one-shot xxhash call + published vectors"]

ALGS = ["md5", "sha1", "sha224", "sha256", "sha384", "sha512", "sha3_224", "sha3_256", "sha3_384",
        "sha3_512", "xxh32", "xxh64", "xxh128"]
BUF = 128 * 1024
TOOLS = {"md5": ["md5sum"], "sha1": ["sha1sum"], "sha224": ["sha224sum"], "sha256": ["sha256sum"],
         "sha384": ["sha384sum"], "sha512": ["sha512sum"],
         "sha3_224": ["openssl", "dgst", "-sha3-224", "-r"], "sha3_256": ["openssl", "dgst", "-sha3-256", "-r"],
         "sha3_384": ["openssl", "dgst", "-sha3-384", "-r"], "sha3_512": ["openssl", "dgst", "-sha3-512", "-r"]}


def sizes(tier: str, rng: random.Random) -> list[int]:
    out = [0, 1, 2, 31, 32, 33, 1000]
    for k in range(1, 5):
        out += [k * BUF - 1, k * BUF, k * BUF + 1]
    out += [1024 * 1024 + 17, BUF // 2, BUF + BUF // 2]
    if tier == "thorough":
        out += [rng.randrange(0, 6 * BUF) for _ in range(60)]
        out += [8 * BUF, 8 * BUF + 5, 16 * BUF - 3, 5_000_000]
    return out


def gen_cases(tier: str, seed: int) -> list[dict]:
    rng = random.Random(seed * 7919 + 16)
    cases = []
    all_sizes = sizes(tier, rng)
    contents = ["random", "zeros", "pattern", "ff"]
    for i, size in enumerate(all_sizes):
        # algorithm tuples: all 13, a permutation, repetitions, singles, pairs
        tuples = [tuple(ALGS)]
        perm = ALGS[:]
        rng.shuffle(perm)
        tuples.append(tuple(perm))
        tuples.append(tuple(rng.choice(ALGS) for _ in range(rng.randint(1, 5))))
        tuples.append((ALGS[i % 13],))
        one = rng.choice(ALGS)
        tuples.append((one, rng.choice(ALGS), one))
        tuples.append(())
        if tier == "thorough":
            tuples += [tuple(rng.sample(ALGS, rng.randint(2, 13))) for _ in range(4)]
        for algs in tuples:
            cases.append({"kind": "file", "size": size, "content": rng.choice(contents),
                          "algs": list(algs), "cseed": rng.randrange(1 << 30)})
    formats = [("fb", "LZ4"), ("npz", ""), ("tfrec", "GZIP"), ("fb", ""), ("npz", "ZIP"), ("tfrec", "")]
    n_ds = 8 if tier == "quick" else 60
    for k in range(n_ds):
        fmt, comp = formats[k % len(formats)]
        algs = tuple(rng.sample(ALGS, rng.randint(1, 13))) if k % 3 else tuple(ALGS)
        if k % 5 == 4:
            algs = algs + (algs[0],)
        cases.append({"kind": "dataset", "fmt": fmt, "comp": comp, "algs": list(algs),
                      "n": rng.randint(3, 40), "eps": rng.randint(1, 7), "nested": k % 2 == 1,
                      "big": k % 4 == 0, "cseed": rng.randrange(1 << 30),
                      # non-ASCII shard metadata: the shard list's byte length crosses a multiple of the read buffer
                      # that its character count does not reach
                      "wide_meta": rng.randint(60, 75) if k % 4 == 2 else 0})
    # a file rewritten with other bytes of the same length and its old modification time (cp -p, rsync -t,
    # coarse file-system clocks): the digest must be that of the bytes now in the file
    for _ in range(10 if tier == "quick" else 100):
        cases.append({"kind": "rewrite", "size": rng.choice([1, 1000, BUF, BUF + 1, 300_000]),
                      "algs": rng.sample(ALGS, rng.randint(1, 3)), "cseed": rng.randrange(1 << 30)})
    n_conc = 10 if tier == "quick" else 120
    for _ in range(n_conc):
        cases.append({"kind": "concurrent", "threads": rng.choice([2, 3, 4, 8]),
                      "sizes": [rng.choice([1, 1000, BUF - 1, BUF + 1, 3 * BUF + 7, 5 * BUF]) for _ in range(6)],
                      "algs": rng.sample(ALGS, rng.randint(1, 4)), "cseed": rng.randrange(1 << 30),
                      "yield": rng.random() < 0.7})
    if tier == "quick":
        rng.shuffle(cases)
    return cases


def worker_init() -> None:
    from rtmon.monitors import contracts
    contracts.attach({"hash_checksums"})


def make_content(size: int, kind: str, cseed: int) -> bytes:
    if kind == "zeros":
        return bytes(size)
    if kind == "ff":
        return b"\xff" * size
    if kind == "pattern":
        unit = bytes(range(256)) * 4
        return (unit * (size // len(unit) + 1))[:size]
    return random.Random(cseed).randbytes(size)


def tool_digest(alg: str, path: Path) -> str | None:
    cmd = TOOLS.get(alg)
    if cmd is None:
        return None
    out = subprocess.run(cmd + [str(path)], capture_output=True, text=True, check=True).stdout
    return out.split()[0].lstrip("\\")


def run_case(case: dict) -> dict:
    from rtmon.monitors import contracts
    contracts.reset()
    work = common.new_workdir("c16")
    try:
        if case["kind"] == "file":
            return run_file(case, work)
        if case["kind"] == "concurrent":
            return run_concurrent(case, work)
        if case["kind"] == "rewrite":
            return run_rewrite(case, work)
        return run_dataset(case, work)
    finally:
        common.rm(work)


def run_file(case: dict, work: Path) -> dict:
    import hashlib
    import xxhash
    import sedpack.io.utils as utils
    from rtmon import xxref
    from rtmon.monitors import contracts
    data = make_content(case["size"], case["content"], case["cseed"])
    path = work / "blob.bin"
    path.write_bytes(data)
    algs = tuple(case["algs"])
    violations, obs = [], {"files_hashed": 1, "external_tool_digests": 0, "reference_impl_digests": 0,
                           "known_answer_checks": 0}
    result = utils.hash_checksums(file_path=path, hashes=algs)
    if not isinstance(result, tuple) or len(result) != len(algs):
        violations.append({"key": "digest-arity", "msg": f"{len(algs)} algorithms -> {result!r}"})
        result = tuple(result) + ("",) * len(algs)
    for alg, got in zip(algs, result):
        want = []
        if alg.startswith("xxh"):
            want.append(("one-shot xxhash", getattr(xxhash, alg)(data).hexdigest()))
            if alg == "xxh32":
                want.append(("pure-python reference", xxref.xxh32(data)))
                obs["reference_impl_digests"] += 1
            if alg == "xxh64":
                want.append(("pure-python reference", xxref.xxh64(data)))
                obs["reference_impl_digests"] += 1
            if (alg, data) in xxref.KNOWN:
                want.append(("published vector", xxref.KNOWN[(alg, data)]))
                obs["known_answer_checks"] += 1
        else:
            want.append(("one-shot hashlib", hashlib.new(alg, data).hexdigest()))
            ext = tool_digest(alg, path)
            if ext is not None:
                want.append((" ".join(TOOLS[alg][:3]), ext))
                obs["external_tool_digests"] += 1
        for source, value in want:
            if got != value:
                violations.append({"key": f"digest-mismatch/{alg}",
                                   "msg": f"size={case['size']} {alg}: hash_checksums gave {got!r}, "
                                          f"{source} gives {value!r} (position in tuple {algs})"})
        if got != got.lower() or any(c not in "0123456789abcdef" for c in got):
            violations.append({"key": "digest-not-lowercase-hex", "msg": f"{alg}: {got!r}"})
    evals, failures = contracts.snapshot()
    obs["contract_evals_hash_checksums"] = evals.get("hash_checksums", 0)
    obs["stored_digests_checked"] = 0
    for failure in failures:
        violations.append({"key": f"contract/{failure['contract']}", "msg": failure["msg"]})
    size_class = ("0" if case["size"] == 0 else "<buf" if case["size"] < BUF else
                  f"{case['size'] // BUF}buf{'+' if case['size'] % BUF else ''}")
    return {"sig": [case["size"], case["content"], case["algs"]], "nontrivial": True,
            "violations": violations, "obs": {**obs, "size_classes": [size_class]},
            "sample": {"size": case["size"], "algs": list(algs), "digests": list(result)[:3]}}


def run_rewrite(case: dict, work: Path) -> dict:
    import os
    import sedpack.io.utils as utils
    from rtmon import audit as auditor
    from rtmon.monitors import contracts
    algs = tuple(case["algs"])
    path = work / "blob.bin"
    violations = []
    checks = 0
    for generation in range(3):
        data = make_content(case["size"], "random", case["cseed"] + generation)
        if path.exists():
            stat = path.stat()
            path.write_bytes(data)
            os.utime(path, ns=(stat.st_atime_ns, stat.st_mtime_ns))     # same size, same mtime, other bytes
        else:
            path.write_bytes(data)
        got = utils.hash_checksums(file_path=path, hashes=algs)
        want = tuple(auditor.digest(data, a) for a in algs)
        checks += 1
        if tuple(got) != want:
            violations.append({"key": "stale-digest-after-same-size-rewrite",
                               "msg": f"size={case['size']} generation {generation}: returned {got}, the file now holds bytes "
                                      f"whose digests are {want}"})
    evals, failures = contracts.snapshot()
    for failure in failures:
        violations.append({"key": f"contract/{failure['contract']}", "msg": failure["msg"]})
    return {"sig": ["rewrite", case["size"], case["algs"]], "nontrivial": True, "violations": violations,
            "obs": {"files_hashed": checks, "same_size_rewrites": checks - 1, "external_tool_digests": 0,
                    "stored_digests_checked": 0, "contract_evals_hash_checksums": evals.get("hash_checksums", 0)},
            "sample": {"rewrite": case["size"], "algs": list(algs)}}


def run_concurrent(case: dict, work: Path) -> dict:
    """Several threads hash different files at the same time (what concurrent check() calls or threaded
    fillers do); each result must still be the digest of *its* file."""
    import contextlib
    import threading
    import sedpack.io.utils as utils
    from rtmon import audit as auditor
    from rtmon.monitors import contracts, delays
    algs = tuple(case["algs"])
    files = []
    for k, size in enumerate(case["sizes"]):
        path = work / f"f{k}.bin"
        data = make_content(size, "random", case["cseed"] + k)
        path.write_bytes(data)
        files.append((path, tuple(auditor.digest(data, a) for a in algs)))
    violations, results = [], []
    barrier = threading.Barrier(case["threads"])

    def worker(tid: int) -> None:
        barrier.wait()
        for rep in range(3):
            for path, want in files[tid % len(files):] + files[:tid % len(files)]:
                got = utils.hash_checksums(file_path=path, hashes=algs)
                results.append((path.name, tuple(got) == want, tid))

    context = delays.hash_yield(case["cseed"]) if case["yield"] else contextlib.nullcontext({"yields": 0})
    with context as stats:
        threads = [threading.Thread(target=worker, args=(t,)) for t in range(case["threads"])]
        for thread in threads:
            thread.start()
        for thread in threads:
            thread.join()
    wrong = [r for r in results if not r[1]]
    if wrong:
        violations.append({"key": "digest-wrong-under-concurrent-hashing",
                           "msg": f"{len(wrong)} of {len(results)} digests computed by {case['threads']} concurrent "
                                  f"threads differ from the digest of the file's own bytes, e.g. {wrong[:3]}"})
    evals, failures = contracts.snapshot()
    return {"sig": ["concurrent", case["threads"], case["sizes"], case["algs"]], "nontrivial": True,
            "violations": violations,
            "obs": {"files_hashed": len(results), "concurrent_hashings": len(results),
                    "yield_injections": stats["yields"], "contract_evals_hash_checksums": evals.get("hash_checksums", 0),
                    "external_tool_digests": 0, "stored_digests_checked": 0},
            "sample": {"concurrent_threads": case["threads"], "sizes": case["sizes"], "algs": list(algs)}}


def run_dataset(case: dict, work: Path) -> dict:
    import numpy as np
    from sedpack.io import Dataset, DatasetFiller
    from sedpack.io.metadata import Attribute
    from rtmon import audit as auditor
    from rtmon import ds as dsmod
    from rtmon.monitors import contracts
    algs = tuple(case["algs"])
    attrs = None
    if case["big"]:
        # shards larger than the 128 KiB read buffer
        attrs = dsmod.std_attributes() + [Attribute(name="blob", dtype="uint8", shape=(70_000,))]
    root = work / "ds"
    dataset = dsmod.create(root, case["fmt"], case["comp"], case["eps"], attrs=attrs, hashes=algs)
    rng = np.random.default_rng(case["cseed"])

    def ex(i):
        e = dsmod.example(i)
        if case["big"]:
            e["blob"] = rng.integers(0, 256, size=70_000, dtype=np.uint8)
        return e

    violations = []
    audits = {"n": 0, "lists": 0, "max_list_bytes": 0, "non_ascii_list_bytes_minus_chars": 0,
              "lists_needing_more_buffers_in_bytes_than_in_characters": 0}

    def audit_now(stage: str):
        report_now = auditor.audit(root, decode=False, check_digests=True)
        audits["n"] += 1
        audits["lists"] += len(report_now.lists)
        for key, msg in report_now.problems:
            violations.append({"key": f"stored-{key}" if key in ("list-digest", "shard-digest") else f"audit/{key}",
                               "msg": f"{stage}: {msg}"})
        for path in root.rglob("shards_list.json"):
            data = path.read_bytes()
            audits["max_list_bytes"] = max(audits["max_list_bytes"], len(data))
            audits["non_ascii_list_bytes_minus_chars"] = max(audits["non_ascii_list_bytes_minus_chars"],
                                                             len(data) - len(data.decode("utf-8")))
        return report_now

    ids = [dsmod.make_id("train", 0, 0, k) for k in range(case["n"])]
    with dataset.filler() as filler:
        for i in ids:
            filler.write_example(values=ex(i), split="train")
    if case.get("wide_meta"):
        note = "\u00b5V \u6e2c\u5b9a " * 220

        def wide_session(directory: str, shards: int, session_no: int):
            with DatasetFiller(dataset, relative_path_from_split=Path(directory)) as filler:
                for k in range(shards * case["eps"]):
                    filler.write_example(values=ex(dsmod.make_id("holdout", session_no, 0, k)), split="holdout",
                                         custom_metadata={"note": note, "shard": k // case["eps"]})
            data = (root / "holdout" / directory / "shards_list.json").read_bytes()
            return len(data.decode("utf-8")), len(data)

        # two probe lists give the list size as a function of the number of shards (characters and bytes); the real
        # one is then sized so that its BYTES need one more 128 KiB buffer than its CHARACTERS would
        c1, b1 = wide_session("probe1", 1, 5)
        c2, b2 = wide_session("probe2", 2, 6)
        per_c, per_b = c2 - c1, b2 - b1
        shards = -(-(BUF + 3000 - (b1 - per_b)) // per_b)
        chars, size = wide_session("wide", shards, 7)
        audits["lists_needing_more_buffers_in_bytes_than_in_characters"] = int(-(-size // BUF) > -(-chars // BUF))
        audit_now("after the session with non-ASCII shard metadata")
    if case["nested"]:
        # the same sub-directory receives three sessions: every rewrite of its list must reach the parent's record
        for session_no in (1, 2, 4):
            with DatasetFiller(dataset, relative_path_from_split=Path("a/b")) as filler:
                for k in range(3):
                    filler.write_example(values=ex(dsmod.make_id("test", session_no, 0, k)), split="test")
                    filler.write_example(values=ex(dsmod.make_id("train", session_no, 0, k)), split="train")
            audit_now(f"after session {session_no} into the sub-directory a/b")
            if session_no == 2:
                dataset = Dataset(root)
    returned = dataset.write_config(updated_infos=[])
    raw = (root / "dataset_info.json").read_bytes()
    want_root = tuple(auditor.digest(raw, a) for a in algs)
    stored = 0
    if tuple(returned.hash_checksums) != want_root:
        violations.append({"key": "root-digest", "msg": f"write_config returned {returned.hash_checksums}, "
                                                        f"independent digest of the file {want_root}"})
    if tuple(dataset.current_metadata_checksums()) != want_root:
        violations.append({"key": "root-digest", "msg": "current_metadata_checksums differs from the "
                                                        "independent digest"})
    stored += 2 * len(algs)
    report = auditor.audit(root, decode=False, check_digests=True)
    for key, msg in report.problems:
        if key in ("list-digest", "shard-digest"):
            violations.append({"key": f"stored-{key}", "msg": msg})
        else:
            violations.append({"key": f"audit/{key}", "msg": msg})
    stored += len(algs) * (len(report.shards) + len(report.lists))
    # external tool on the largest shard
    ext = 0
    if report.shards:
        biggest = max(report.shards, key=lambda s: (root / s.path).stat().st_size)
        for alg, recorded in zip(algs, biggest.checksums):
            tool = tool_digest(alg, root / biggest.path)
            if tool is not None:
                ext += 1
                if tool != recorded:
                    violations.append({"key": f"digest-mismatch/{alg}",
                                       "msg": f"{biggest.path}: recorded {recorded}, external tool {tool}"})
    evals, failures = contracts.snapshot()
    for failure in failures:
        violations.append({"key": f"contract/{failure['contract']}", "msg": failure["msg"]})
    return {"sig": ["dataset", case["fmt"], case["comp"], case["algs"], case["nested"], case["big"]],
            "nontrivial": True, "violations": violations,
            "obs": {"files_hashed": len(report.shards) + len(report.lists) + 1,
                    "stored_digests_checked": stored, "external_tool_digests": ext,
                    "contract_evals_hash_checksums": evals.get("hash_checksums", 0),
                    "intermediate_audits": audits["n"], "max_shard_list_bytes": audits["max_list_bytes"],
                    "lists_needing_more_buffers_in_bytes_than_in_characters":
                        audits["lists_needing_more_buffers_in_bytes_than_in_characters"],
                    "max_bytes_minus_characters_of_a_shard_list": audits["non_ascii_list_bytes_minus_chars"],
                    "max_shard_bytes": max([(root / s.path).stat().st_size for s in report.shards] or [0])},
            "sample": {"dataset": case["fmt"], "algs": list(algs), "shards": len(report.shards),
                       "lists": len(report.lists)}}
