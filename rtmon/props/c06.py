"""C06 A writer crash never corrupts or loses committed data.

Monitor: crash injector (rtmon/crash_server.py: fork-server + `strace -e inject=...:signal=SIGKILL:when=K`)
kills the real writer on entry to every file-system call of the crashing session that touches the dataset
(read off a reference trace of the same session), and torn variants of every write are produced by
truncating the written file between its size before and after that write.  Every surviving directory —
which is also exactly what a concurrent reader could have seen at that instant — is audited: each
non-temporary metadata file is a complete valid document, every shard reachable from the description
exists, matches its recorded digests and decodes, and a fresh reader returns all examples of earlier
completed sessions, only ids that were passed to write_example, each whole (payload recomputed).
"""
from __future__ import annotations

import json
import os
import random
import re
import shutil
import subprocess
from collections import Counter
from pathlib import Path

from rtmon import common

LEVEL = "fault_enumeration"
WORKERS = 14
CASE_TIMEOUT = 900
REQUIRED_OBS = ["crash_states_audited", "processes_killed", "torn_states_audited", "reference_sessions",
                "live_reader_passes"]
RULE = ("format {fb,npz,tfrec} x history shape {create+first session, continued root session, fresh sub-directory, "
        "reused sub-directory, multi-writer (single process; real processes in thorough)} x every (syscall, K) of the "
        "crashing session that touches the dataset x torn prefixes {1, half, n-1} (all prefixes of metadata writes in "
        "thorough). Distinct = (format, shape, syscall, K, torn class); non-trivial iff the process was actually killed "
        "at that point.")
ASSUMPTIONS = ["process crash, operating system stays up (no loss of un-fsynced data)",
               "update_* temporary files, unlisted shards and stale parent-list checksums after a crash are legitimate",
               "crash points are system-call boundaries as seen by strace; inside one write() the torn prefixes are "
               "emulated by truncation"]

SHAPES = ("create", "continue-root", "fresh-subdir", "reused-subdir", "multi-single", "continue-after-multi")
_SERVER: dict = {}


def gen_cases(tier: str, seed: int) -> list[dict]:
    rng = random.Random(seed * 1117 + 6)
    cases = []
    shapes = list(SHAPES) + (["multi-real"] if tier == "thorough" else []) + ["live-root", "live-subdir"]
    reps = 1 if tier == "quick" else 4
    for fmt in ("fb", "npz", "tfrec"):
        for shape in shapes:
            for _ in range(reps):
                cases.append({"fmt": fmt, "comp": rng.choice({"fb": ["", "LZ4"], "npz": ["", "ZIP"], "tfrec": ["", "GZIP"]}[fmt]),
                              "shape": shape, "eps": rng.choice([2, 3]), "seed": rng.randrange(1 << 30),
                              "all_torn": tier == "thorough", "hashes": rng.choice([["sha256"], ["md5", "xxh64"]])})
    return cases


def run_live(case: dict) -> dict:
    """A live writer (slow, untraced) and a reader that keeps opening + iterating the dataset meanwhile:
    every pass must succeed and return all committed examples plus only whole examples the writer wrote."""
    import time
    from sedpack.io import Dataset
    from rtmon import ds as dsmod
    fmt = case["fmt"]
    work = common.new_workdir("c06live")
    violations, obs = [], Counter()
    try:
        root = work / "ds"
        create = {"fmt": fmt, "comp": case["comp"], "eps": case["eps"], "hashes": case["hashes"]}
        first = {"create": create, "kind": "root", "session": 0,
                 "writes": [[s, dsmod.make_id(s, 0, 0, k)] for k, s in enumerate(["train"] * 5 + ["test"] * 3)]}
        answer = request({"root": str(root), "session": first, "inject": None, "log": str(work / "p.log"), "untraced": True})
        if answer.get("exit") != 0:
            return {"sig": "live-base-failed", "nontrivial": False, "violations": [], "obs": {},
                    "inconclusive": [f"base session failed {answer}"]}
        committed = {s: Counter(i for sp, i in map(tuple, first["writes"]) if sp == s) for s in dsmod.SPLITS}
        n_writes = 40
        kind = case["shape"]
        writes = [[["train", "test"][k % 3 == 0], dsmod.make_id(["train", "test"][k % 3 == 0], 2, 0, k)] for k in range(n_writes)]
        session = {"kind": "root" if kind == "live-root" else "subdir", "subdir": "live/x", "session": 2,
                   "writes": writes, "delay": 0.04 if fmt == "tfrec" else 0.006}
        attempted = {i for _, i in writes}
        audit_state(root, committed, attempted)        # warm-up (TensorFlow's first use is slow)
        proc = server()
        proc.stdin.write(json.dumps({"root": str(root), "session": session, "inject": None, "log": str(work / "w.log"),
                                     "untraced": True, "timeout": 120}) + "\n")
        proc.stdin.flush()
        import select
        passes = 0
        seen_sizes = set()
        while True:
            ready, _, _ = select.select([proc.stdout], [], [], 0)
            if ready:
                answer = json.loads(proc.stdout.readline())
                break
            problems = audit_state(root, committed, attempted)
            passes += 1
            for key, msg in problems:
                if len(violations) < 10:
                    violations.append({"key": f"concurrent-reader/{key}", "msg": f"{fmt} {kind} pass {passes}: {msg}"})
            try:
                seen_sizes.add(sum(1 for _ in Dataset(root).shard_info_iterator("train")))
            except Exception:  # pylint: disable=broad-exception-caught
                pass
        if answer.get("exit") != 0:
            violations.append({"key": "live-writer-failed", "msg": str(answer)})
        for key, msg in audit_state(root, committed, attempted, complete=True):
            violations.append({"key": f"after-live-session/{key}", "msg": msg})
        obs["live_reader_passes"] = passes
        obs["live_sessions"] = 1
        obs["distinct_shard_counts_seen_by_reader"] = len(seen_sizes)
        return {"sig": [fmt, kind, "live"], "nontrivial": passes >= 2 and len(seen_sizes) >= 2, "violations": violations,
                "obs": {**obs, "crash_states_audited": 0, "processes_killed": 0, "torn_states_audited": 0, "reference_sessions": 0},
                "sample": {"fmt": fmt, "live": kind, "reader_passes": passes, "shard_counts_seen": sorted(seen_sizes)}}
    finally:
        common.rm(work)


def foreign_tmpdir() -> str | None:
    """A temporary directory on ANOTHER file system than the datasets: the writer's environment then is one in
    which a 'write to a temporary file, then move it into place' that leaves the dataset directory stops being
    one atomic rename.  (The unchanged tree keeps its temporary files beside their targets, so this changes
    nothing for it.)"""
    if "tmp" not in _SERVER:
        _SERVER["tmp"] = None
        try:
            candidate = f"/dev/shm/rtmon-c06-{os.getpid()}"
            os.makedirs(candidate, exist_ok=True)
            if os.stat(candidate).st_dev != os.stat(common.WORK_ROOT).st_dev:
                _SERVER["tmp"] = candidate
                import atexit
                import shutil
                atexit.register(shutil.rmtree, candidate, True)
        except OSError:
            pass
    return _SERVER["tmp"]


def finalize(_ctx, _records) -> None:
    """Parent, after all cases: drop the (empty) foreign temporary directories of workers that are gone."""
    import glob
    import shutil
    for path in glob.glob("/dev/shm/rtmon-c06-*"):
        pid = path.rsplit("-", 1)[-1]
        if not (pid.isdigit() and os.path.exists(f"/proc/{pid}")):
            shutil.rmtree(path, ignore_errors=True)


def server():
    proc = _SERVER.get("proc")
    if proc is None or proc.poll() is not None:
        env = dict(os.environ, PYTHONPATH=str(common.VERIF))
        if foreign_tmpdir():
            env["TMPDIR"] = foreign_tmpdir()
        proc = subprocess.Popen([common.PY, "-m", "rtmon.crash_server"], stdin=subprocess.PIPE, stdout=subprocess.PIPE,
                                stderr=subprocess.DEVNULL, cwd=str(common.VERIF), env=env, text=True, bufsize=1)
        ready = json.loads(proc.stdout.readline())
        assert ready.get("ready")
        _SERVER["proc"] = proc
    return proc


def request(payload: dict, _retry: bool = True) -> dict:
    try:
        proc = server()
        proc.stdin.write(json.dumps(payload) + "\n")
        proc.stdin.flush()
        line = proc.stdout.readline()
        if not line:
            raise RuntimeError("crash server died")
        return json.loads(line)
    except (RuntimeError, OSError, ValueError):
        # the fork-server itself went away (not the session under test): start a new one and ask once more
        old = _SERVER.pop("proc", None)
        if old is not None:
            try:
                old.kill()
            except OSError:
                pass
        if not _retry:
            raise
        return request(payload, _retry=False)


_CALL = re.compile(r"^(\d+)\s+(\w+)\((.*)$")


def crash_points(log: Path, root: str) -> tuple[list[dict], dict]:
    """Per-syscall-name counters of every call; the calls that touch the dataset root are crash points."""
    counters: Counter = Counter()
    points = []
    for raw in open(log, errors="replace"):
        match = _CALL.match(raw)
        if not match or "resumed>" in raw:
            continue
        _pid, name, rest = match.groups()
        counters[name] += 1
        if root in rest:
            target = re.search(re.escape(root) + r"[^\">\s,)]*", rest)
            ret = rest.rsplit(" = ", 1)[1].strip() if " = " in rest else ""
            mutating = name not in ("close", "open", "openat") or any(flag in rest for flag in ("O_CREAT", "O_TRUNC"))
            points.append({"syscall": name, "when": counters[name], "target": target.group(0)[len(root):] if target else "",
                           "ret": ret.split()[0] if ret else "", "mutating": mutating})
    return points, dict(counters)


def run_case(case: dict) -> dict:
    if case["shape"].startswith("live-"):
        return run_live(case)
    from rtmon import ds as dsmod
    fmt, shape = case["fmt"], case["shape"]
    rng = random.Random(case["seed"])
    work = common.new_workdir("c06")
    violations, obs, sigs = [], Counter(), []
    try:
        base = work / "base"
        create = {"fmt": fmt, "comp": case["comp"], "eps": case["eps"], "hashes": case["hashes"]}
        committed: list[tuple[str, int]] = []
        # ---- earlier completed sessions (run through the same server, no injection)
        def plain(root: Path, session: dict) -> None:
            answer = request({"root": str(root), "session": session, "inject": None, "log": str(work / "plain.log")})
            if answer.get("exit") != 0:
                raise RuntimeError(f"base session failed: {answer}")
        if shape != "create":
            first = {"create": create, "kind": "root", "session": 0,
                     "writes": [[s, dsmod.make_id(s, 0, 0, k)] for k, s in enumerate(["train"] * 5 + ["test"] * 2)]}
            plain(base, first)
            committed += [tuple(w) for w in first["writes"]]
            if shape == "continue-after-multi":
                # an earlier multi-writer call left several child lists; the crashing session then re-merges them
                second = {"kind": "multi", "session": 1, "single_process": True,
                          "writers": [[["train", 0], ["train", 0], ["test", 0]], [["train", 0]], [["train", 0], ["holdout", 0]]]}
                plain(base, second)
                committed += [(s, dsmod.make_id(s, 1, w, k)) for w, ws in enumerate(second["writers"]) for k, (s, _) in enumerate(ws)]
            if shape == "reused-subdir":
                second = {"kind": "subdir", "subdir": "a/b", "session": 1,
                          "writes": [[s, dsmod.make_id(s, 1, 0, k)] for k, s in enumerate(["train"] * 3 + ["holdout"] * 2)]}
                plain(base, second)
                committed += [tuple(w) for w in second["writes"]]
        else:
            base.mkdir()
        # ---- the crashing session
        k_session = 2
        splits = rng.sample(["train", "test", "holdout"], 2)
        writes = [[rng.choice(splits), 0] for _ in range(case["eps"] * 2 + 1)]
        writes = [[s, dsmod.make_id(s, k_session, 0, k)] for k, (s, _) in enumerate(writes)]
        if shape == "create":
            crash = {"create": create, "kind": "root", "session": k_session, "writes": writes}
        elif shape in ("continue-root", "continue-after-multi"):
            crash = {"kind": "root", "session": k_session, "writes": writes}
        elif shape in ("fresh-subdir", "reused-subdir"):
            crash = {"kind": "subdir", "subdir": "a/b" if shape == "reused-subdir" else "c/d", "session": k_session, "writes": writes}
        else:
            per_writer = [writes[0::2], writes[1::2]]
            crash = {"kind": "multi", "session": k_session, "single_process": shape == "multi-single",
                     "writers": [[[s, 0] for s, _ in ws] for ws in per_writer]}
            writes = [[s, dsmod.make_id(s, k_session, w, k)] for w, ws in enumerate(per_writer) for k, (s, _) in enumerate(ws)]
        attempted = set(i for _, i in writes)
        committed_ids = {s: Counter(i for sp, i in committed if sp == s) for s in dsmod.SPLITS}
        # ---- reference trace
        ref_root = work / "ref"
        shutil.copytree(base, ref_root)
        ref_log = work / "ref.log"
        answer = request({"root": str(ref_root), "session": crash, "inject": None, "log": str(ref_log)})
        if answer.get("exit") != 0 or not answer.get("attached"):
            return {"sig": "reference-failed", "nontrivial": False, "violations": [], "obs": {},
                    "inconclusive": [f"reference session did not complete: {answer}"]}
        obs["reference_sessions"] += 1
        problems = audit_state(ref_root, committed_ids, attempted, complete=True)
        for key, msg in problems:
            violations.append({"key": f"uncrashed-session/{key}", "msg": f"{fmt} {shape}: {msg}"})
        points, _ = crash_points(ref_log, str(ref_root))
        # the multi-process case: counters are per process, keep it to the parent's calls
        import time
        budget_end = time.monotonic() + (600.0 if case["all_torn"] else 240.0)
        # visited in a seeded random order, so that a run cut short by the budget still samples the whole
        # session (its end — merges, final renames, the description — is the most delicate part)
        visit = list(enumerate(points))
        rng.shuffle(visit)
        for index, point in visit:
            if time.monotonic() > budget_end:
                # per-case time budget: what was visited is what is reported
                obs["crash_points_skipped_time_budget"] += 1
                continue
            # Killing on entry to a call yields the state after all *earlier* effects.  If the previous traced
            # call changed nothing on disk (read-only open, close) this state was already audited: the quick
            # tier skips such duplicates, the thorough tier visits every point.
            if not case["all_torn"] and index > 0 and not points[index - 1]["mutating"]:
                obs["duplicate_states_skipped"] += 1
                continue
            state = work / "state"
            common.rm(state)
            shutil.copytree(base, state)
            log = work / "k.log"
            answer = request({"root": str(state), "session": crash,
                              "inject": {"syscall": point["syscall"], "when": point["when"]}, "log": str(log),
                              "timeout": 30})
            label = f"{fmt}/{case['comp'] or 'none'} {shape}: killed on entry to {point['syscall']} #{point['when']} ({point['target'][-60:]})"
            if not answer.get("signaled"):
                obs["injection_not_reached"] += 1
                continue
            obs["processes_killed"] += 1
            obs["kills_with_writer_tmpdir_on_another_filesystem"] += int(bool(foreign_tmpdir()))
            obs[f"crash_points:{point['syscall']}"] += 1
            problems = audit_state(state, committed_ids, attempted)
            obs["crash_states_audited"] += 1
            sigs.append([fmt, shape, point["syscall"], point["when"], "boundary"])
            for key, msg in problems:
                violations.append({"key": f"{key}/{role(point['target'])}", "msg": f"{label}: {msg}"})
            # ---- life goes on after a crash: a later session into the same place must not destroy what was
            #      committed before the crash (recovery code, clean-ups and "finish the interrupted update"
            #      heuristics run exactly here)
            if obs["crash_states_audited"] % 3 == 0 and (root_has_description(state)):
                recovery_dir = work / "recovery"
                common.rm(recovery_dir)
                shutil.copytree(state, recovery_dir)
                rec_writes = [[s, dsmod.make_id(s, 3, 0, k)] for k, s in enumerate(["train", "train", "test", "holdout"])]
                recovery = dict(crash, session=3, writes=rec_writes, create=None) if crash["kind"] != "multi" else \
                    {"kind": "root", "session": 3, "writes": rec_writes}
                recovery.pop("create", None)
                answer2 = request({"root": str(recovery_dir), "session": recovery, "inject": None,
                                   "log": str(work / "r.log"), "untraced": True, "timeout": 60})
                obs["recovery_sessions"] += 1
                if answer2.get("exit") == 0:
                    obs["recovery_sessions_completed"] += 1
                    after_ids = {s: committed_ids[s] + Counter(i for sp, i in rec_writes if sp == s) for s in dsmod.SPLITS}
                    for key, msg in audit_state(recovery_dir, after_ids, attempted):
                        violations.append({"key": f"after-recovery-session/{key}/{role(point['target'])}",
                                           "msg": f"{label}; then a normal session: {msg}"})
                else:
                    obs["recovery_sessions_refused"] += 1
                    for key, msg in audit_state(recovery_dir, committed_ids, attempted | {i for _, i in rec_writes}):
                        violations.append({"key": f"after-failed-recovery-session/{key}/{role(point['target'])}",
                                           "msg": f"{label}; then a session that raised: {msg}"})
            # torn variants of the write that completed immediately before the kill.  Everything is read from
            # the crashed run's OWN trace (never matched against the reference run by counters or guessed by
            # modification time): if the last dataset-touching call before the killed one is a write, the
            # state holds exactly that complete write and nothing after it; its target is then cut back to
            # every/sampled shorter length.  Not done for real multi-process sessions (other writers run on).
            if shape == "multi-real":
                continue
            own_points, _ = crash_points(log, str(state))
            if len(own_points) < 2 or own_points[-2]["syscall"] not in ("write", "pwrite64", "writev"):
                continue
            prev = own_points[-2]
            written = int(prev["ret"]) if prev["ret"].isdigit() else 0
            target = (state / prev["target"].lstrip("/")) if prev["target"] else None
            if target is None or not target.is_file() or written <= 1:
                obs["torn_target_not_identified"] += 1
                continue
            size_after = target.stat().st_size
            size_before = max(0, size_after - written)
            is_meta = target.name.endswith(".json") or "update_" in target.name
            if case["all_torn"] and is_meta:
                # thorough: every prefix of small metadata writes, a dense sample of larger ones
                cuts = range(1, written) if written <= 160 else sorted(
                    set(range(1, 40)) | set(range(written - 40, written)) | set(range(40, written - 40, max(1, written // 120))))
            else:
                cuts = sorted({1, written // 2, written - 1})
            original = target.read_bytes()
            for cut in cuts:
                if not 0 < cut < written or time.monotonic() > budget_end:
                    continue
                target.write_bytes(original[:size_before + cut])
                problems = audit_state(state, committed_ids, attempted)
                obs["torn_states_audited"] += 1
                sigs.append([fmt, shape, "write", prev["when"], "torn-1" if cut == 1 else "torn-mid" if cut < written - 1 else "torn-n-1"])
                for key, msg in problems:
                    violations.append({"key": f"{key}/torn-{role(prev['target'])}",
                                       "msg": f"{fmt} {shape}: write #{prev['when']} to {prev['target'][-50:]} torn after {cut}/{written} bytes: {msg}"})
            target.write_bytes(original)
        obs["crash_points_total"] = len(points)
        return {"sigs": sigs, "sig": None, "nontrivial": obs["processes_killed"] > 0, "violations": violations,
                "obs": dict(obs),
                "sample": {"fmt": fmt, "shape": shape, "crash_points": len(points),
                           "some_points": [[p["syscall"], p["when"], p["target"][-40:]] for p in points[:6]]}}
    finally:
        common.rm(work)


def root_has_description(root: Path) -> bool:
    return (root / "dataset_info.json").is_file()


def role(target: str) -> str:
    name = Path(target).name
    if name.startswith("update_"):
        return "temp-file"
    if name == "dataset_info.json":
        return "description"
    if name == "shards_list.json":
        return "shard-list"
    if "." in name:
        return "shard"
    return "directory"


def find_target(state: Path, relative: str) -> Path | None:
    """The crashed run uses other uuid names than the reference run: locate the file by role."""
    candidate = state / relative.lstrip("/")
    if candidate.is_file():
        return candidate
    name = Path(relative).name
    parent = (state / relative.lstrip("/")).parent
    if name.startswith("update_") and parent.is_dir():
        temps = sorted(parent.glob("update_*"), key=lambda p: p.stat().st_mtime)
        return temps[-1] if temps else None
    if parent.is_dir():
        files = sorted((p for p in parent.iterdir() if p.is_file() and p.suffix == Path(name).suffix
                        and not p.name.startswith("update_") and p.name != "shards_list.json"),
                       key=lambda p: p.stat().st_mtime)
        return files[-1] if files else None
    return None


def audit_state(root: Path, committed: dict, attempted: set, complete: bool = False) -> list[tuple[str, str]]:
    from sedpack.io import Dataset
    from sedpack.io.metadata import DatasetInfo
    from sedpack.io.shard_file_metadata import ShardsList
    from rtmon import audit as auditor, ds as dsmod
    problems: list[tuple[str, str]] = []
    any_committed = any(c for c in committed.values())
    for path in sorted(root.rglob("*.json")):
        if path.name.startswith("update_"):
            continue
        try:
            text = path.read_text(encoding="utf-8")
            json.loads(text)
            if path.name == "dataset_info.json":
                DatasetInfo.model_validate_json(text)
            elif path.name == "shards_list.json":
                ShardsList.model_validate_json(text)
        except Exception as exc:  # pylint: disable=broad-exception-caught
            problems.append(("metadata-file-not-a-valid-document",
                             f"{path.relative_to(root)} ({path.stat().st_size} bytes): {type(exc).__name__}"))
    if not (root / "dataset_info.json").is_file():
        if any_committed:
            problems.append(("description-lost", "dataset_info.json is gone although sessions were committed"))
        return problems
    report = auditor.audit(root)
    for key, msg in report.problems:
        if key in ("listed-shard-missing", "shard-digest", "shard-undecodable", "shard-count", "listed-list-missing",
                   "list-unparsable", "description-unreadable", "shard-listed-twice"):
            problems.append((f"reachable-{key}", msg))
        elif complete and key not in ("shard-unlisted",):
            problems.append((key, msg))
    try:
        dataset = Dataset(root)
    except Exception as exc:  # pylint: disable=broad-exception-caught
        problems.append(("dataset-does-not-open", f"{type(exc).__name__}: {str(exc)[:160]}"))
        return problems
    for split in dsmod.SPLITS:
        want = committed.get(split, Counter())
        if split not in dataset._dataset_info.splits:  # pylint: disable=protected-access
            if want:
                problems.append(("committed-examples-lost", f"split {split} disappeared"))
            continue
        try:
            examples = list(dataset.as_numpy_iterator(split=split, shuffle=0, repeat=False))
        except Exception as exc:  # pylint: disable=broad-exception-caught
            problems.append(("iteration-raises-after-crash", f"split {split}: {type(exc).__name__}: {str(exc)[:160]}"))
            continue
        ids, payload_problems = dsmod.ids_of(examples)
        got = Counter(ids)
        missing = want - got
        if missing:
            problems.append(("committed-examples-lost", f"split {split}: {list(missing.elements())[:4]} ({sum(missing.values())})"))
        foreign = [i for i in got if i not in want and (i not in attempted or dsmod.split_id(i)[0] != split)]
        if foreign:
            problems.append(("never-written-example-returned", f"split {split}: {foreign[:4]}"))
        dup = [i for i, c in got.items() if c > 1]
        if dup:
            problems.append(("example-returned-twice", f"split {split}: {dup[:4]}"))
        for problem in payload_problems:
            problems.append(("torn-example-returned", problem))
        if complete:
            expected = want + Counter(i for i in attempted if dsmod.split_id(i)[0] == split)
            if got != expected:
                problems.append(("completed-session-incomplete", f"split {split}"))
    return problems
