"""C09 Parallel writers do not interfere.

Monitor: every case runs the multi-writer call with *real worker processes* (in a fresh process that has
executed no TensorFlow op) and, separately, with single_process=True; the two datasets must be equivalent:
same per-split multiset, each writer's examples in its own order and writers in argument order, return
values in argument order, exact audited metadata and a passing check().  Per-process write sets come from
`strace -f` (every path opened for writing / created / renamed, per pid) and from the writers' own logs:
no path may be written by two worker processes.  Relative speeds are perturbed by seeded delays at entry /
between writes / before exit, a synchronised start (all writers hit the shared split directory at once)
and optional CPU load; the observed interleavings (order of first-write and exit events) are counted.
"""
from __future__ import annotations

import json
import os
import random
import subprocess
from collections import Counter
from pathlib import Path

from rtmon import common
from rtmon.monitors import strace_log

LEVEL = "exploration"
WORKERS = 12
CASE_TIMEOUT = 400
QUIESCENCE_AFTER = 90.0
REQUIRED_OBS = ["real_process_runs", "writer_processes", "distinct_worker_pids", "traced_runs", "differential_comparisons",
                "second_calls_on_a_dataset"]
RULE = ("writer lists (1..6 writers, uneven loads, several splits per writer, empty writers) x formats x delay "
        "pattern (entry / between writes / before exit, slowest-first, synchronised start) x optional CPU load. "
        "Distinct = (format, per-writer per-split counts, delay pattern, seed); non-trivial iff >=2 writers wrote >=1 "
        "example each.")
ASSUMPTIONS = ["worker scheduling is perturbed, not controlled", "each real-process call runs in a fresh process "
               "(fork after TensorFlow ops is a TensorFlow hazard, not a sedpack property)"]


def gen_cases(tier: str, seed: int) -> list[dict]:
    rng = random.Random(seed * 1109 + 9)
    n = 36 if tier == "quick" else 500
    cases = []
    for k in range(n):
        fmt = ["fb", "npz", "tfrec"][k % 3]
        n_writers = rng.choice([1, 2, 2, 3, 4, 6])
        writers = []
        for _w in range(n_writers):
            if rng.random() < 0.15:
                writers.append([])
                continue
            splits = rng.sample(["train", "test", "holdout"], rng.randint(1, 3))
            writes = [{"split": rng.choice(splits)} for _ in range(rng.randint(1, 9))]
            writers.append(writes)
        pattern = rng.choice(["none", "slowest-first", "random", "sync-start", "sync-start", "exit-delay"])
        delays = {}
        for w in range(n_writers):
            if pattern == "slowest-first":
                delays[str(w)] = [0.15 * (n_writers - 1 - w), 0.0]
            elif pattern == "random":
                delays[str(w)] = [rng.random() * 0.2, rng.random() * 0.02, rng.random() * 0.02]
            elif pattern == "exit-delay":
                delays[str(w)] = [0.0, 0.0]
        cases.append({"fmt": fmt, "eps": rng.choice([1, 2, 3]), "writers": writers, "pattern": pattern, "delays": delays,
                      "trace": k % 3 == 0, "cpu_load": rng.random() < 0.25, "seed": rng.randrange(1 << 30),
                      "cpu_count": 2 if (n_writers >= 3 and rng.random() < 0.5) else None})
        if k % 3 == 1:
            # the multi-writer call is made twice on the same dataset (its splits already hold per-writer lists)
            cases[-1]["earlier_call"] = [[{"split": rng.choice(["train", "test", "holdout"])} for _ in range(rng.randint(1, 6))]
                                         for _ in range(rng.randint(1, 3))]
    # more writers than (reported) CPUs, first writers slow after their first shards: later writers start while
    # earlier ones are still running
    for k in range(4 if tier == "quick" else 40):
        n_writers = rng.choice([5, 6, 8])
        writers = [[{"split": rng.choice(["train", "train", "test"])} for _ in range(rng.randint(3, 7))] for _ in range(n_writers)]
        delays = {str(w): ([0.0, 0.0, 0.0, 0.25] if w < 2 else [0.0, 0.0]) for w in range(n_writers)}
        cases.append({"fmt": ["fb", "npz", "tfrec"][k % 3], "eps": 1, "writers": writers, "pattern": "few-cpus",
                      "delays": delays, "trace": False, "cpu_load": False, "seed": rng.randrange(1 << 30), "cpu_count": 2})
    # one writer with several hundred shards: its pickled filler is far larger than a pipe buffer
    for k in range(2 if tier == "quick" else 12):
        writers = [[{"split": "train"}] * 5, [{"split": "train"}] * rng.choice([300, 450]), [], [{"split": "test"}] * 20]
        cases.append({"fmt": ["fb", "npz"][k % 2], "eps": 1, "writers": writers, "pattern": "big-writer", "delays": {},
                      "trace": False, "cpu_load": False, "seed": rng.randrange(1 << 30), "cpu_count": None})
    return cases


def run_case(case: dict) -> dict:
    from sedpack.io import Dataset
    from rtmon import audit as auditor, ds as dsmod, history as H, readers
    fmt = case["fmt"]
    work = common.new_workdir("c09")
    violations, obs = [], Counter()
    try:
        session = {"kind": "multi", "writers": case["writers"], "single_process": False, "delays": case["delays"]}
        sessions = [session]
        if case.get("earlier_call"):
            sessions = [{"kind": "multi", "writers": case["earlier_call"], "single_process": False, "delays": {}}, session]
            obs["second_calls_on_a_dataset"] += 1
        hist = {"fmt": fmt, "comp": "", "eps": case["eps"], "sessions": sessions}
        root_par, root_seq = work / "par", work / "seq"
        spec = work / "spec.json"
        spec.write_text(json.dumps({"root": str(root_par), "hist": hist, "cpu_count": case.get("cpu_count"),
                                    "start_in": 4.0 if case["pattern"] == "sync-start" else None}))
        cmd = [common.PY, "-m", "rtmon.session_runner", str(spec), str(work / "out.json")]
        log_path = work / "strace.log"
        if case["trace"]:
            cmd = ["strace", "-f", "-y", "-qq", "-s", "512", "-e",
                   "trace=openat,open,creat,rename,renameat,renameat2,mkdir,mkdirat,unlink,unlinkat", "-o",
                   str(log_path)] + cmd
        burners = []
        if case["cpu_load"]:
            burners = [subprocess.Popen([common.PY, "-S", "-c", "while True: pass"]) for _ in range(6)]
        hang_diag = None
        try:
            import signal
            import time
            from rtmon.monitors import quiescence
            stderr_path = work / "runner.err"
            with open(stderr_path, "wb") as err:
                proc = subprocess.Popen(cmd, cwd=str(common.VERIF), env=dict(os.environ, PYTHONPATH=str(common.VERIF)),
                                        stdout=subprocess.DEVNULL, stderr=err, start_new_session=True)
                started = time.monotonic()
                quiet_in_a_row = 0
                while proc.poll() is None:
                    time.sleep(0.2)
                    elapsed = time.monotonic() - started
                    if elapsed > 40 and int(elapsed) % 5 == 0:
                        # decide on state: the whole process tree of the call asleep, no CPU, no context switches
                        diag = quiescence.diagnose(proc.pid, None, samples=4, span=1.5, scope="tree")
                        quiet_in_a_row = quiet_in_a_row + 1 if diag["verdict"] == "quiescent" else 0
                        if quiet_in_a_row >= 2 or elapsed > 400:
                            hang_diag = dict(diag, elapsed=elapsed, decided=quiet_in_a_row >= 2)
                            try:
                                os.killpg(proc.pid, signal.SIGKILL)
                            except ProcessLookupError:
                                pass
                            proc.wait()
                            break
            proc.stderr_text = stderr_path.read_text(errors="replace")[-600:]
        finally:
            for burner in burners:
                burner.kill()
                burner.wait()
        if hang_diag is not None:
            if hang_diag["decided"]:
                violations.append({"key": "multi-writer-call-hangs",
                                   "msg": f"{fmt} writers={[len(w) for w in case['writers']]} pattern={case['pattern']}: the call "
                                          f"did not return after {hang_diag['elapsed']:.0f}s and all {hang_diag['threads']} threads of "
                                          f"its {hang_diag['processes']} processes are asleep (no CPU, no context switches)"})
                obs["real_process_runs"] += 1
                return finish(case, violations, obs)
            return {"sig": "runner-undecided", "nontrivial": False, "violations": [], "obs": {},
                    "inconclusive": [f"multi-writer call still busy after {hang_diag['elapsed']:.0f}s: {hang_diag['reasons']}"]}
        if not (work / "out.json").is_file():
            return {"sig": "runner-failed", "nontrivial": False, "violations": [], "obs": {},
                    "inconclusive": [f"session runner failed rc={proc.returncode}: {getattr(proc, 'stderr_text', '')}"]}
        out = json.loads((work / "out.json").read_text())
        obs["real_process_runs"] += 1
        label = f"{fmt} writers={[len(w) for w in case['writers']]} pattern={case['pattern']} load={case['cpu_load']}"
        if out.get("exc"):
            violations.append({"key": f"multi-writer-call-raised/{out['exc'].split(':')[0]}",
                               "msg": f"{label}: {out['exc']}"})
            return finish(case, violations, obs)
        returns = out["returns"]
        n_writers = len(case["writers"])
        obs["writer_processes"] += n_writers
        pids = [r["pid"] for r in returns]
        obs["distinct_worker_pids"] += len(set(pids))
        if len(set(pids)) != n_writers:
            obs["pid_reuse_runs"] += 1
        if [r["writer"] for r in returns] != list(range(n_writers)):
            violations.append({"key": "return-values-not-in-argument-order",
                               "msg": f"{label}: returned writers {[r['writer'] for r in returns]}"})
        firsts = sorted((r["t_first"], r["writer"]) for r in returns if r.get("t_first"))
        ends = sorted((r["t_end"], r["writer"]) for r in returns)
        interleaving = [w for _, w in firsts] + ["|"] + [w for _, w in ends]
        # ---- sequential reference
        H.run_history(root_seq, {"fmt": fmt, "comp": "", "eps": case["eps"],
                                 "sessions": [dict(one, single_process=True, delays={}) for one in sessions]})
        par, seq = Dataset(root_par), Dataset(root_seq)
        report = auditor.audit(root_par)
        for key, msg in report.problems:
            violations.append({"key": f"audit/{key}", "msg": f"{label}: {msg}"})
        try:
            par.check(show_progressbar=False)
        except Exception as exc:  # pylint: disable=broad-exception-caught
            violations.append({"key": "check-raised", "msg": f"{label}: {exc}"[:300]})
        splits_par, splits_seq = set(par._dataset_info.splits), set(seq._dataset_info.splits)  # pylint: disable=protected-access
        if splits_par != splits_seq:
            violations.append({"key": "splits-differ", "msg": f"{label}: {splits_par} vs {splits_seq}"})
        for split in sorted(splits_par & splits_seq):
            ids_par, problems = dsmod.ids_of(readers.read(par, "sync", split, shuffle=0, repeat=False))
            ids_seq, _ = dsmod.ids_of(readers.read(seq, "sync", split, shuffle=0, repeat=False))
            obs["differential_comparisons"] += 1
            if Counter(ids_par) != Counter(ids_seq):
                violations.append({"key": "multiset-differs-from-sequential-run",
                                   "msg": f"{label} split {split}: parallel-only {list((Counter(ids_par) - Counter(ids_seq)).elements())[:4]} "
                                          f"sequential-only {list((Counter(ids_seq) - Counter(ids_par)).elements())[:4]}"})
            elif any([i for i in ids_par if dsmod.split_id(i)[1] == k] != [i for i in ids_seq if dsmod.split_id(i)[1] == k]
                     for k in range(len(sessions))):
                # (the relative order of different calls' examples is not part of the statement)
                violations.append({"key": "order-differs-from-sequential-run",
                                   "msg": f"{label} split {split}: writers yielded {[dsmod.split_id(i)[2] for i in ids_par]} vs "
                                          f"{[dsmod.split_id(i)[2] for i in ids_seq]} (finish order {[w for _, w in ends]})"})
            for problem in problems:
                violations.append({"key": "payload", "msg": problem})
            for rec_par, rec_seq in ((par._dataset_info.splits[split], seq._dataset_info.splits[split]),):  # pylint: disable=protected-access
                if (rec_par.number_of_examples, rec_par.number_of_shards) != (rec_seq.number_of_examples, rec_seq.number_of_shards):
                    violations.append({"key": "split-summary-differs-from-sequential-run",
                                       "msg": f"{label} {split}: {rec_par.number_of_examples}/{rec_par.number_of_shards} vs "
                                              f"{rec_seq.number_of_examples}/{rec_seq.number_of_shards}"})
        # ---- no file holds examples of two writers; no directory is shared
        owners_by_dir: dict = {}
        for shard in report.shards:
            owners = {dsmod.split_id(i)[2] for i in shard.ids or []}
            if len(owners) > 1:
                violations.append({"key": "shard-written-by-two-writers", "msg": f"{label}: {shard.path} holds writers {owners}"})
            owners_by_dir.setdefault(str(Path(shard.path).parent), set()).update(owners)
        for directory, owners in owners_by_dir.items():
            if len(owners) > 1:
                violations.append({"key": "directory-shared-by-writers", "msg": f"{label}: {directory} used by writers {owners}"})
        # ---- per-pid write sets from strace
        if case["trace"] and log_path.is_file():
            obs["traced_runs"] += 1
            written: dict = {}
            for pid, call, paths, ret, args in strace_log.parse(log_path, with_args=True):
                if ret.startswith("-1"):
                    continue
                for path in paths:
                    if not path.startswith(str(root_par)) or path == str(root_par):
                        continue
                    if call in ("rename", "renameat", "renameat2", "mkdir", "mkdirat", "creat", "unlink", "unlinkat"):
                        written.setdefault(path, set()).add((pid, call))
                    elif call in ("open", "openat") and any(f in args for f in ("O_WRONLY", "O_RDWR", "O_CREAT", "O_TRUNC")):
                        written.setdefault(path, set()).add((pid, "open-for-writing"))
            worker_pids = set(pids)
            for path, users in written.items():
                worker_users = {pid for pid, call in users if pid in worker_pids and not call.startswith("mkdir")}
                if len(worker_users) > 1 and not Path(path).is_dir():
                    violations.append({"key": "path-written-by-two-worker-processes",
                                       "msg": f"{label}: {path.replace(str(root_par), '<root>')} written by pids {sorted(worker_users)}"})
            obs["paths_traced"] += len(written)
            obs["opens_for_writing_traced"] += sum(1 for users in written.values() for _, c in users if c == "open-for-writing")
        active = sum(1 for w in case["writers"] if w)
        return finish(case, violations, obs, interleaving=interleaving, nontrivial=active >= 2)
    finally:
        common.rm(work)


def finish(case, violations, obs, interleaving=None, nontrivial=True):
    shape = [sorted(Counter(w["split"] for w in ws).items()) for ws in case["writers"]]
    return {"sig": [case["fmt"], shape, case["pattern"], case["seed"]], "nontrivial": nontrivial,
            "violations": violations,
            "obs": {**obs, "interleavings": [json.dumps(interleaving)] if interleaving else []},
            "sample": {"fmt": case["fmt"], "writers": [len(w) for w in case["writers"]], "pattern": case["pattern"],
                       "first_write_order|exit_order": interleaving}}


def on_timeout(case: dict, record: dict) -> dict | None:
    diag = record.get("diag", {})
    if diag.get("verdict") == "quiescent":
        return {"violation": "multi-writer-call-hangs",
                "msg": f"{case['fmt']} writers={[len(w) for w in case['writers']]}: all processes quiescent; "
                       f"{diag.get('stacks', '')[-1200:]}"}
    return None
