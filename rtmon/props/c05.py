"""C05 Integrity check accepts every committed dataset and detects every modification.

Monitor: for committed datasets (flat, nested, multi-writer, continued; 1..13 algorithms incl. repetition)
every reachable file (description, every shard list, every shard) is tampered — bit flips at sampled / all
offsets, truncation, extension, deletion, swap with a sibling of the same role, rollback to every older
version kept from earlier sessions — and `check(hash_checksums_values=recorded)` must raise on a fresh
handle and on the writer's kept handle; after restoring the bytes it must pass again.  Untampered datasets
must pass after every session.
"""
from __future__ import annotations

import random
from collections import Counter
from pathlib import Path

from rtmon import common
from rtmon import history as H

LEVEL = "fault_enumeration"
WORKERS = 14
CASE_TIMEOUT = 900
REQUIRED_OBS = ["tamperings", "detected", "untampered_checks_passed", "rollbacks", "swaps", "files_tampered"]
RULE = ("dataset shapes (flat / nested / multi-writer / continued, formats, 1..13 algorithms) x file role "
        "(description, top list, child list, shard) x tampering kind (bitflip, truncate, extend, delete, swap, "
        "rollback) x offset class. Distinct = (shape class, role, kind, offset class); non-trivial iff the tampering "
        "changed >=1 byte of a reachable file. Quick samples offsets, thorough enumerates every byte offset and every "
        "truncation length.")
ASSUMPTIONS = ["expected checksums of the description are supplied (the statement's premise for that file)",
               "at least one checksum algorithm configured"]

ALGS = ["md5", "sha1", "sha224", "sha256", "sha384", "sha512", "sha3_224", "sha3_256", "sha3_384", "sha3_512",
        "xxh32", "xxh64", "xxh128"]


def gen_cases(tier: str, seed: int) -> list[dict]:
    rng = random.Random(seed * 1091 + 5)
    n = 42 if tier == "quick" else 400
    cases = []
    for k in range(n):
        hist = H.gen_history(rng, max_sessions=4, subdir_bias=0.6)
        if k % 3 == 0:
            # a split with many shards (9..20): verification must reach the last ones too
            hist["eps"] = 1
            hist["sessions"].insert(0, {"kind": "root", "writes": [{"split": "train"}] * rng.choice([9, 11, 13, 17, 20])})
        if len(hist["sessions"]) < 2:
            hist["sessions"].append({"kind": "subdir", "subdir": "a/b", "writes": [{"split": "train"}] * 3})
        if k % 4 == 0:
            algs = list(ALGS)
        elif k % 4 == 1:
            algs = [rng.choice(ALGS)]
        else:
            algs = rng.sample(ALGS, rng.randint(2, 5))
            if k % 4 == 3:
                algs.append(algs[0])          # repetition
        hist["hashes"] = algs
        cases.append({"hist": hist, "tseed": rng.randrange(1 << 30), "exhaustive": tier == "thorough" and k % 40 == 0})
    return cases


def offsets(size: int, rng: random.Random, how_many: int) -> list[int]:
    if size == 0:
        return []
    base = {0, size - 1, size // 2, min(size - 1, 1), max(0, size - 2)}
    while len(base) < min(size, how_many):
        base.add(rng.randrange(size))
    return sorted(base)


def run_case(case: dict) -> dict:
    from sedpack.io import Dataset
    from rtmon import audit as auditor
    hist = case["hist"]
    rng = random.Random(case["tseed"])
    work = common.new_workdir("c05")
    violations: list[dict] = []
    obs: Counter = Counter()
    sigs = []
    try:
        root = work / "ds"
        versions: dict[str, list[bytes]] = {}
        keep: dict = {}

        def after(k, dataset, model):
            if not model.sessions[k].completed:
                return
            # integrity check passes after every successful session (fresh handle and the writing handle)
            sums = dataset.current_metadata_checksums()
            for handle, who in ((dataset, "kept"), (Dataset(root), "fresh")):
                try:
                    handle.check(show_progressbar=False, hash_checksums_values=sums)
                    obs["untampered_checks_passed"] += 1
                except Exception as exc:  # pylint: disable=broad-exception-caught
                    violations.append({"key": f"check-raised-on-untampered-dataset/{who}",
                                       "msg": f"after session {k}: {type(exc).__name__}: {str(exc)[:200]}"})
            for path in [root / "dataset_info.json"] + sorted(root.rglob("shards_list.json")):
                rel = str(path.relative_to(root))
                data = path.read_bytes()
                if not versions.get(rel) or versions[rel][-1] != data:
                    versions.setdefault(rel, []).append(data)

        model = H.run_history(root, hist, after_session=after, keep_handle=keep)
        if not all(s.completed for s in model.sessions):
            return {"sig": "aborted", "nontrivial": False, "obs": dict(obs),
                    "violations": violations + [{"key": "session-raised", "msg": str([s.exc for s in model.sessions])}]}
        kept = keep["dataset"]
        sums = kept.current_metadata_checksums()
        # concurrent integrity checks of the untampered dataset (two handles, several threads) must pass too
        import threading
        from rtmon.monitors import delays
        failures: list[str] = []

        def checker(handle):
            try:
                handle.check(show_progressbar=False, hash_checksums_values=sums)
            except Exception as exc:  # pylint: disable=broad-exception-caught
                failures.append(f"{type(exc).__name__}: {str(exc)[:160]}")

        with delays.hash_yield(case["tseed"]) as stats:
            threads = [threading.Thread(target=checker, args=(handle,)) for handle in (kept, Dataset(root), Dataset(root))]
            for thread in threads:
                thread.start()
            for thread in threads:
                thread.join()
        obs["concurrent_untampered_checks"] += len(threads)
        obs["yield_injections"] += stats["yields"]
        if failures:
            violations.append({"key": "check-raised-on-untampered-dataset/concurrent",
                               "msg": f"{len(failures)} of 3 concurrent check() calls raised: {failures[0]}"})
        report = auditor.audit(root, decode=False)
        shape = ("nested" if any(len(Path(l["path"]).parts) > 2 for l in report.lists) else "flat",
                 "multi" if any(s["kind"] == "multi" for s in hist["sessions"]) else "filler",
                 hist["fmt"], "1alg" if len(hist["hashes"]) == 1 else "13alg" if len(hist["hashes"]) >= 13 else "few")
        files: list[tuple[str, str]] = [("dataset_info.json", "description")]
        for lst in report.lists:
            files.append((lst["path"], "top-list" if len(Path(lst["path"]).parts) == 2 else "child-list"))
        for shard in report.shards:
            files.append((shard.path, "shard"))
        by_role: dict[str, list[str]] = {}
        for rel, role in files:
            by_role.setdefault(role, []).append(rel)

        def detected() -> list[str]:
            """Which handles failed to raise."""
            missed = []
            try:
                kept.check(show_progressbar=False, hash_checksums_values=sums)
                missed.append("kept-handle")
            except Exception:  # pylint: disable=broad-exception-caught
                pass
            try:
                Dataset(root).check(show_progressbar=False, hash_checksums_values=sums)
                missed.append("fresh-handle")
            except Exception:  # pylint: disable=broad-exception-caught
                pass
            return missed

        def attempt(rel: str, role: str, kind: str, offset_class: str, describe: str) -> None:
            obs["tamperings"] += 1
            obs[f"kind:{kind}"] += 1
            obs[f"role:{role}"] += 1
            missed = detected()
            if missed:
                violations.append({"key": f"tampering-not-detected/{role}/{kind}",
                                   "msg": f"{shape} {rel} ({role}): {describe}: check() returned normally on {missed}"})
            else:
                obs["detected"] += 1
            sigs.append([list(shape), role, kind, offset_class])

        how_many = 10 ** 9 if case["exhaustive"] else (26 if len(files) <= 14 else 8)
        import time
        budget_end = time.monotonic() + (420.0 if case["exhaustive"] else 150.0)
        for rel, role in files:
            if time.monotonic() > budget_end:
                # the exhaustive enumeration is cut at a time budget; what was covered is what is reported
                obs["files_skipped_time_budget"] += 1
                continue
            path = root / rel
            original = path.read_bytes()
            size = len(original)
            obs["files_tampered"] += 1
            try:
                # bit flips
                for off in offsets(size, rng, how_many):
                    if time.monotonic() > budget_end:
                        obs["offsets_cut_time_budget"] += 1
                        break
                    bits = range(8) if (case["exhaustive"] and role != "shard") else [rng.randrange(8)]
                    for bit in bits:
                        data = bytearray(original)
                        data[off] ^= 1 << bit
                        path.write_bytes(bytes(data))
                        attempt(rel, role, "bitflip", "first" if off == 0 else "last" if off == size - 1 else "interior",
                                f"bit {bit} of byte {off}/{size} flipped")
                # truncation
                lengths = range(size) if case["exhaustive"] else sorted(
                    {0, 1, size - 1, size // 2} | {rng.randrange(size) for _ in range(8)} if size else set())
                for length in lengths:
                    if time.monotonic() > budget_end:
                        break
                    if 0 <= length < size:
                        path.write_bytes(original[:length])
                        attempt(rel, role, "truncate", "empty" if length == 0 else "partial", f"truncated to {length}/{size}")
                # extension
                for tail in (b"\n", b"\x00", b" ", original[-1:] or b"x"):
                    path.write_bytes(original + tail)
                    attempt(rel, role, "extend", "append", f"{tail!r} appended")
                # deletion
                path.unlink()
                attempt(rel, role, "delete", "whole", "file removed")
                path.write_bytes(original)
                # swap with a sibling of the same role (valid content of another file)
                for other in by_role[role]:
                    if other == rel:
                        continue
                    other_bytes = (root / other).read_bytes()
                    if other_bytes == original:
                        obs["noop_swaps_skipped"] += 1
                        continue
                    path.write_bytes(other_bytes)
                    (root / other).write_bytes(original)
                    obs["swaps"] += 1
                    attempt(rel, role, "swap", "sibling", f"content swapped with {other}")
                    (root / other).write_bytes(other_bytes)
                    path.write_bytes(original)
                    if not case["exhaustive"] and obs[f"swapped:{rel}"] >= 2:
                        break
                    obs[f"swapped:{rel}"] += 1
                # rollback to older versions of the same metadata file
                for old in versions.get(rel, [])[:-1]:
                    if old == original:
                        continue
                    path.write_bytes(old)
                    obs["rollbacks"] += 1
                    attempt(rel, role, "rollback", "older-version", "replaced by an older, previously valid version")
            finally:
                path.write_bytes(original)
        # consistent rollback of a whole sub-tree is out of reach of the statement only if the parent checksum
        # still matches; rolling back a child list AND nothing else is covered above.
        missed = detected()
        if missed != ["kept-handle", "fresh-handle"]:
            violations.append({"key": "check-raises-after-restoring",
                               "msg": f"{shape}: after all files were restored check() still raises on "
                                      f"{sorted({'kept-handle', 'fresh-handle'} - set(missed))}"})
        else:
            obs["untampered_checks_passed"] += 2
        for key in [k for k in obs if k.startswith("swapped:")]:
            del obs[key]
        return {"sigs": sigs, "sig": None, "nontrivial": obs["tamperings"] > 0, "violations": violations,
                "obs": dict(obs),
                "sample": {"shape": list(shape), "files": len(files), "algorithms": hist["hashes"],
                           "tamperings": obs["tamperings"]}}
    finally:
        common.rm(work)
