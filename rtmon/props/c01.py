"""C01 Round-trip fidelity: every value read equals the value written.

Monitor: the recorder keeps, for every written attribute value, its *canonical bytes* (exact cast to the
declared dtype, little-endian, C order; raw bytes for bytes, UTF-8 for str).  Every reader's output is
compared bytewise (NaN payloads, -0.0, subnormals count), with the shape and the format's dtype rule
(fb: declared dtype; tfrec: integers widened to int64, str as UTF-8 bytes; npz: value equality).
icontract postconditions on `CompressedFile.compress` (inverse, checked with an independent codec) and
`decode_array` (dtype/shape) run on every shard.  spec/supported_cells.json is the baseline of
(format, dtype, reader) and (format, presentation) cells that are accepted and readable on the pinned
tree: a baseline cell that is now refused or unreadable is a violation; a wrong value is a violation in
every cell.
"""
from __future__ import annotations

import json
import random
from collections import Counter
from pathlib import Path

from rtmon import common

LEVEL = "exploration"
NEEDS_RUST = True
NEEDS_DEPS = True
WORKERS = 14
CASE_TIMEOUT = 400
REQUIRED_OBS = ["values_compared", "cells", "contract_evals_compress", "contract_evals_decode_array"]
RULE = ("format x compression x attribute list (1..4 attributes) x dtype x rank 0..4 x value class (min/max, +-0, "
        "+-inf, NaN payloads, subnormals, random bit patterns; empty/NUL-containing/NUL-terminated/non-UTF8 byte "
        "strings; non-ASCII/astral text) x presentation (C, F, strided, negative stride, big-endian, exact narrower "
        "dtype, NumPy scalar, 0-d array, Python scalar) x reader (sync, concurrent, async, Rust, tf.data). Distinct = "
        "(format, compression, dtype, rank, value class, presentation, reader); non-trivial iff >=1 value was "
        "compared bytewise.")
ASSUMPTIONS = ["baseline cells = spec/supported_cells.json (calibrated on the pinned tree with the repairs)",
               "'narrower dtype' presentations only where the cast is exact; npz makes no dtype promise"]

SPEC = common.VERIF / "spec" / "supported_cells.json"
NUMERIC = ["bool", "int8", "uint8", "int16", "uint16", "int32", "uint32", "int64", "uint64",
           "float16", "float32", "float64"]
ALL_DTYPES = NUMERIC + ["str", "bytes"]
PRESENTATIONS = ["c", "f", "strided", "negstride", "bigendian", "narrower", "npscalar", "zerod", "pyscalar"]
NARROWER = {"int16": "int8", "int32": "int16", "int64": "int32", "uint16": "uint8", "uint32": "uint16",
            "uint64": "uint32", "float32": "float16", "float64": "float32", "int8": "bool", "uint8": "bool"}


def load_spec() -> dict:
    return json.loads(SPEC.read_text()) if SPEC.is_file() else {"dtype": {}, "presentation": {}}


# ------------------------------------------------------------------------------------------ values
def make_values(dtype: str, shape: tuple, vclass: str, rng):
    """Canonical value (NumPy array of the declared dtype, or bytes/str)."""
    import numpy as np
    n = int(np.prod(shape, dtype=np.int64))
    if dtype == "bytes":
        return {"empty": b"", "nul-inside": b"ab\x00cd", "nul-end": b"abc\x00", "nul-end2": b"\x00\x00",
                "random": bytes(rng.integers(0, 256, size=int(rng.integers(1, 40)), dtype=np.uint8)),
                "non-utf8": b"\xff\xfe\x80abc", "ascii": b"plain ascii"}[vclass]
    if dtype == "str":
        return {"empty": "", "nul-inside": "ab\x00cd", "nul-end": "abc\x00", "ascii": "plain ascii",
                "non-ascii": "žluťoučký kůň ✓", "astral": "𝔘𝔫𝔦 😀", "random": "".join(
                    chr(int(c)) for c in rng.integers(32, 0x2FF, size=int(rng.integers(1, 20))))}[vclass]
    dt = np.dtype(dtype)
    if dtype == "bool":
        return rng.integers(0, 2, size=shape).astype(bool) if vclass != "max" else np.ones(shape, dtype=bool)
    if dt.kind in "iu":
        info = np.iinfo(dt)
        if vclass == "min":
            return np.full(shape, info.min, dtype=dt)
        if vclass == "max":
            return np.full(shape, info.max, dtype=dt)
        if vclass == "small":
            return rng.integers(max(info.min, -3), min(info.max, 3) + 1, size=shape).astype(dt)
        raw = rng.integers(0, 256, size=n * dt.itemsize, dtype=np.uint8).tobytes()
        return np.frombuffer(raw, dtype=dt).reshape(shape).copy()
    # floats
    info = np.finfo(dt)
    uint = {2: np.uint16, 4: np.uint32, 8: np.uint64}[dt.itemsize]
    if vclass == "zeros":
        out = np.zeros(shape, dtype=dt)
        flat = out.reshape(-1)
        flat[::2] = -0.0
        return out
    if vclass == "inf":
        out = np.full(shape, np.inf, dtype=dt)
        out.reshape(-1)[::2] = -np.inf
        return out
    if vclass == "nan":
        bits = rng.integers(1, 2 ** (info.nmant), size=n, dtype=np.uint64).astype(uint)
        exp_all_ones = (np.array(2 ** (dt.itemsize * 8 - 1 - info.nmant) - 1, dtype=np.uint64) << np.uint64(info.nmant)).astype(uint)
        sign = (rng.integers(0, 2, size=n, dtype=np.uint64) << np.uint64(dt.itemsize * 8 - 1)).astype(uint)
        return (bits | exp_all_ones | sign).view(dt).reshape(shape).copy()
    if vclass == "subnormal":
        bits = rng.integers(1, 2 ** (info.nmant), size=n, dtype=np.uint64).astype(uint)
        return bits.view(dt).reshape(shape).copy()
    if vclass == "min":
        return np.full(shape, info.min, dtype=dt)
    if vclass == "max":
        return np.full(shape, info.max, dtype=dt)
    if vclass == "small":
        return rng.integers(-4, 5, size=shape).astype(dt)
    raw = rng.integers(0, 256, size=n * dt.itemsize, dtype=np.uint8).tobytes()
    return np.frombuffer(raw, dtype=dt).reshape(shape).copy()


def value_classes(dtype: str) -> list[str]:
    if dtype == "bytes":
        return ["empty", "nul-inside", "nul-end", "nul-end2", "random", "non-utf8", "ascii"]
    if dtype == "str":
        return ["empty", "nul-inside", "nul-end", "ascii", "non-ascii", "astral", "random"]
    if dtype == "bool":
        return ["random", "max"]
    if dtype.startswith("float"):
        return ["zeros", "inf", "nan", "subnormal", "min", "max", "small", "bits"]
    return ["min", "max", "small", "bits"]


def present(canonical, dtype: str, presentation: str, rng):
    """The same value in another memory layout / byte order / container.  Returns None if the
    presentation does not apply (e.g. F order of a scalar, inexact narrowing)."""
    import numpy as np
    if dtype in ("str", "bytes"):
        return canonical if presentation == "c" else None
    arr = np.asarray(canonical)
    if presentation == "c":
        return np.ascontiguousarray(arr) if arr.ndim else np.array(arr)
    if presentation == "f":
        return np.asfortranarray(arr) if arr.ndim >= 2 else None
    if presentation == "strided":
        if arr.ndim == 0:
            return None
        big = np.zeros(arr.shape[:-1] + (arr.shape[-1] * 2,), dtype=arr.dtype)
        big[..., ::2] = arr
        view = big[..., ::2]
        assert not view.flags["C_CONTIGUOUS"] or arr.shape[-1] == 1
        return view
    if presentation == "negstride":
        if arr.ndim == 0:
            return None
        return np.ascontiguousarray(arr[..., ::-1])[..., ::-1]
    if presentation == "bigendian":
        if arr.dtype.itemsize == 1:
            return None
        return arr.astype(arr.dtype.newbyteorder(">"))
    if presentation == "narrower":
        small = NARROWER.get(dtype)
        if small is None:
            return None
        with np.errstate(all="ignore"):
            cast = arr.astype(small)
            back = cast.astype(arr.dtype)
        if back.tobytes() != arr.tobytes():
            return None
        return cast
    if presentation == "npscalar":
        return arr[()] if arr.ndim == 0 else None
    if presentation == "zerod":
        return np.array(arr) if arr.ndim == 0 else None
    if presentation == "pyscalar":
        if arr.ndim != 0 or dtype not in ("int64", "float64", "bool"):
            return None
        return arr.item()
    return None


def canonical_bytes(value, dtype: str) -> bytes:
    import numpy as np
    if dtype == "bytes":
        return bytes(value)
    if dtype == "str":
        return value.encode("utf-8")
    return np.ascontiguousarray(np.asarray(value).astype(np.dtype(dtype).newbyteorder("<"))).tobytes()


def read_bytes(read, dtype: str, fmt: str):
    """-> (bytes under the format's dtype rule, dtype name seen, shape seen)"""
    import numpy as np
    if dtype in ("str", "bytes"):
        if isinstance(read, (bytes, np.bytes_)):
            return bytes(read), "bytes", ()
        if isinstance(read, (str, np.str_)):
            return str(read).encode("utf-8"), "str", ()
        arr = np.asarray(read)
        item = arr.item() if arr.ndim == 0 else arr
        if isinstance(item, bytes):
            # numpy S/U scalars hide trailing NULs on .item(); take what the user gets
            return item, "bytes", ()
        if isinstance(item, str):
            return item.encode("utf-8"), "str", ()
        return repr(read).encode(), str(type(read)), ()
    arr = np.asarray(read)
    target = np.dtype(dtype)
    with np.errstate(all="ignore"):
        same = np.ascontiguousarray(arr.astype(target.newbyteorder("<")))
    return same.tobytes(), str(arr.dtype), tuple(arr.shape)


def expected_dtype(fmt: str, dtype: str, reader: str) -> str | None:
    if dtype in ("str", "bytes"):
        return None
    if fmt == "fb":
        return dtype
    if fmt == "tfrec":
        if dtype in ("int8", "uint8", "int32", "int64"):
            return "int64"
        return dtype
    return None          # npz: value equality only


# ------------------------------------------------------------------------------------------ cases
def formats_dtypes(spec: dict):
    for fmt in ("fb", "npz", "tfrec"):
        for dtype in ALL_DTYPES:
            if spec["dtype"].get(fmt, {}).get(dtype):
                yield fmt, dtype


def gen_cases(tier: str, seed: int) -> list[dict]:
    from rtmon import ds as dsmod
    rng = random.Random(seed * 1093 + 1)
    spec = load_spec()
    cells = list(formats_dtypes(spec))
    cases = []
    reps = 4 if tier == "quick" else 24
    shapes_by_rank = {0: [()], 1: [(3,), (1,)], 2: [(2, 3), (3, 1)], 3: [(2, 2, 3)], 4: [(2, 1, 3, 2)]}
    for fmt, dtype in cells:
        comps = dsmod.COMPRESSIONS[fmt]
        for rep in range(reps):
            for comp in (comps if tier == "thorough" or dtype in ("float32", "int64", "bytes") else
                         [comps[(rep + hash_index(dtype)) % len(comps)]]):
                attrs = []
                n_extra = rng.randint(0, 2)
                main_ranks = [0] if dtype in ("str", "bytes") else rng.sample([0, 1, 2, 3, 4], 2 if tier == "quick" else 3)
                for j, rank in enumerate(main_ranks):
                    attrs.append({"name": f"a{j}", "dtype": dtype, "shape": list(rng.choice(shapes_by_rank[rank]))})
                for j in range(n_extra):
                    other = rng.choice([d for f, d in cells if f == fmt])
                    rank = 0 if other in ("str", "bytes") else rng.choice([0, 1, 2])
                    attrs.append({"name": f"b{j}", "dtype": other, "shape": list(rng.choice(shapes_by_rank[rank]))})
                rng.shuffle(attrs)
                if rng.random() < 0.8:
                    attrs.insert(rng.randrange(len(attrs) + 1), {"name": "id", "dtype": "int64", "shape": []})
                cases.append({"fmt": fmt, "comp": comp, "attrs": attrs[:4] if len(attrs) > 4 else attrs,
                              "focus": dtype, "vseed": rng.randrange(1 << 30)})
    # pinned cases: the two listed findings are reproduced deterministically in every run
    cases.append({"fmt": "npz", "comp": "", "focus": "bytes", "vseed": 1, "force": {"bytes": "nul-end", "str": "nul-end"},
                  "attrs": [{"name": "id", "dtype": "int64", "shape": []}, {"name": "a0", "dtype": "bytes", "shape": []},
                            {"name": "a1", "dtype": "str", "shape": []}]})
    cases.append({"fmt": "tfrec", "comp": "", "focus": "float32", "vseed": 2, "force": {"float32": "nan"},
                  "attrs": [{"name": "id", "dtype": "int64", "shape": []}, {"name": "a0", "dtype": "float32", "shape": [4]}]})
    if tier == "quick":
        rng.shuffle(cases)
    return cases


def hash_index(text: str) -> int:
    return sum(text.encode())


def worker_init() -> None:
    from rtmon.monitors import contracts
    contracts.attach({"compress", "decode_array"})


def run_case(case: dict) -> dict:
    import numpy as np
    from sedpack.io import Dataset
    from sedpack.io.metadata import Attribute
    from rtmon import ds as dsmod, readers
    from rtmon.monitors import contracts
    contracts.reset()
    spec = load_spec()
    fmt, comp = case["fmt"], case["comp"]
    rng = np.random.default_rng(case["vseed"])
    prng = random.Random(case["vseed"])
    work = common.new_workdir("c01")
    violations: list[dict] = []
    obs: Counter = Counter()
    sigs = []
    try:
        attrs = [Attribute(name=a["name"], dtype=a["dtype"], shape=tuple(a["shape"])) for a in case["attrs"]]
        dataset = dsmod.create(work / "ds", fmt, comp, 3, attrs=attrs)
        # build examples: each example picks a value class and a presentation per attribute
        written = []       # per example: {name: (canonical bytes, vclass, presentation, canonical value)}
        n_examples = 7
        refused = 0
        reuse_buffers = case["vseed"] % 3 == 0     # the caller refills ONE preallocated array per attribute
        shuffle_keys = case["vseed"] % 2 == 0      # the value dict is built in another key order than declared
        buffers: dict = {}
        obs["cases_with_reused_buffers"] += int(reuse_buffers)
        obs["cases_with_reordered_keys"] += int(shuffle_keys)
        with dataset.filler() as filler:
            for k in range(n_examples):
                values, record = {}, {}
                for a in case["attrs"]:
                    if a["name"] == "id":
                        values["id"] = np.int64(k)
                        record["id"] = (canonical_bytes(np.int64(k), "int64"), "small", "npscalar", np.int64(k))
                        continue
                    vclass = case.get("force", {}).get(a["dtype"]) or prng.choice(value_classes(a["dtype"]))
                    canonical = make_values(a["dtype"], tuple(a["shape"]), vclass, rng)
                    order = PRESENTATIONS[:]
                    prng.shuffle(order)
                    chosen, presented = "c", present(canonical, a["dtype"], "c", rng)
                    for name in order:
                        if name not in spec["presentation"].get(fmt, PRESENTATIONS) and name != "c":
                            continue
                        candidate = present(canonical, a["dtype"], name, rng)
                        if candidate is not None:
                            chosen, presented = name, candidate
                            break
                    if reuse_buffers and a["dtype"] not in ("str", "bytes") and a["shape"]:
                        # same ndarray object for every example, overwritten in place between writes
                        buffer = buffers.setdefault(a["name"], np.zeros(tuple(a["shape"]), dtype=a["dtype"]))
                        buffer[...] = canonical
                        presented, chosen = buffer, "reused-buffer"
                    values[a["name"]] = presented
                    record[a["name"]] = (canonical_bytes(canonical, a["dtype"]), vclass, chosen, canonical)
                if k == 2 and case["vseed"] % 3 == 1 and len(case["attrs"]) >= 2:
                    # a rejected write in the middle of the sequence (text for a numeric attribute that is not the
                    # first one): it must leave the neighbouring examples' values alone
                    victim = next((a for a in reversed(case["attrs"][1:]) if a["dtype"] not in ("str", "bytes")), None)
                    if victim is not None:
                        broken = dict(values)
                        broken[victim["name"]] = np.full(tuple(victim["shape"]), "text", dtype="<U4")
                        try:
                            filler.write_example(values=broken, split="train")
                            obs["invalid_write_accepted"] += 1
                        except Exception:  # pylint: disable=broad-exception-caught
                            obs["rejected_writes_in_sequence"] += 1
                if shuffle_keys:
                    names = list(values)
                    prng.shuffle(names)
                    values = {name: values[name] for name in names}
                try:
                    filler.write_example(values=values, split="train")
                    written.append(record)
                except Exception as exc:  # pylint: disable=broad-exception-caught
                    refused += 1
                    what = {n: (r[1], r[2]) for n, r in record.items() if n != "id"}
                    violations.append({"key": f"supported-cell-write-refused/{fmt}",
                                       "msg": f"{fmt}/{comp or 'none'} attrs={case['attrs']} values={what}: "
                                              f"{type(exc).__name__}: {str(exc)[:200]}"})
        obs["examples_written"] += len(written)
        fresh = Dataset(dataset.path)
        for reader in readers.interfaces_for(fmt, comp):
            supported = all(reader in spec["dtype"].get(fmt, {}).get(a["dtype"], []) for a in case["attrs"])
            kwargs = {"file_parallelism": prng.choice([1, 2, 3])} if "file_parallelism" in readers.ACCEPTS[reader] else {}
            try:
                examples = readers.read(fresh, reader, "train", shuffle=0, repeat=False, **kwargs)
            except Exception as exc:  # pylint: disable=broad-exception-caught
                if supported:
                    violations.append({"key": f"supported-cell-read-raised/{fmt}/{reader}",
                                       "msg": f"{fmt}/{comp or 'none'} attrs={case['attrs']}: {type(exc).__name__}: {str(exc)[:200]}"})
                else:
                    obs["unsupported_cell_read_raised"] += 1
                continue
            if obs["invalid_write_accepted"]:
                break      # the format took the text value: that is C18's business, the sequence is not comparable
            if len(examples) != len(written):
                violations.append({"key": f"example-count/{fmt}/{reader}", "msg": f"{len(examples)} read, {len(written)} written"})
                continue
            # the same values must come back when the pass is shuffled and shards are read side by side (several
            # shard decoders of one reader alive at once): compared with this reader's own ordered pass, so that
            # whatever the ordered comparison below reports is not reported twice
            def fingerprint(example):
                return tuple((a["name"],) + read_bytes(example[a["name"]], a["dtype"], fmt)
                             for a in case["attrs"] if a["name"] in example)
            shuffled_kwargs = {"file_parallelism": prng.choice([2, 3])} if "file_parallelism" in readers.ACCEPTS[reader] else {}
            try:
                shuffled = readers.read(Dataset(dataset.path), reader, "train", shuffle=prng.choice([2, 5]), repeat=False,
                                        **shuffled_kwargs)
                obs["shuffled_passes_compared"] += 1
                if Counter(map(fingerprint, shuffled)) != Counter(map(fingerprint, examples)):
                    violations.append({"key": f"shuffled-pass-values-differ/{fmt}/{reader}",
                                       "msg": f"{fmt}/{comp or 'none'} attrs={case['attrs']} {shuffled_kwargs}: the shuffled "
                                              f"pass returned {len(shuffled)} examples whose values are not those of the "
                                              f"ordered pass ({len(examples)})"})
            except Exception as exc:  # pylint: disable=broad-exception-caught
                violations.append({"key": f"shuffled-pass-raised/{fmt}/{reader}",
                                   "msg": f"{fmt}/{comp or 'none'} attrs={case['attrs']}: {type(exc).__name__}: {str(exc)[:200]}"})
            for record, example in zip(written, examples):
                for a in case["attrs"]:
                    name, dtype = a["name"], a["dtype"]
                    want_bytes, vclass, presentation, canonical = record[name]
                    if name not in example:
                        violations.append({"key": f"attribute-missing/{fmt}/{reader}", "msg": name})
                        continue
                    got_bytes, seen_dtype, seen_shape = read_bytes(example[name], dtype, fmt)
                    obs["values_compared"] += 1
                    sigs.append([fmt, comp, dtype, len(a["shape"]), vclass, presentation, reader])
                    rule = expected_dtype(fmt, dtype, reader)
                    cell = f"{fmt}/{comp or 'none'} {dtype}{a['shape']} class={vclass} presentation={presentation} reader={reader}"
                    if got_bytes != want_bytes:
                        violations.append({"key": classify(fmt, dtype, reader, want_bytes, got_bytes, presentation),
                                           "msg": f"{cell}: wrote {want_bytes[:24]!r}.. read {got_bytes[:24]!r}.. "
                                                  f"(value {str(canonical)[:60]!r} -> {str(example[name])[:60]!r})"})
                    if dtype not in ("str", "bytes"):
                        if seen_shape != tuple(a["shape"]):
                            violations.append({"key": f"shape-mismatch/{fmt}/{reader}",
                                               "msg": f"{cell}: shape {seen_shape} != declared {tuple(a['shape'])}"})
                        if rule is not None and seen_dtype != rule:
                            violations.append({"key": f"dtype-rule/{fmt}/{reader}",
                                               "msg": f"{cell}: returned dtype {seen_dtype}, the format promises {rule}"})
        evals, failures = contracts.snapshot()
        for failure in failures:
            violations.append({"key": f"contract/{failure['contract']}", "msg": failure["msg"]})
        obs["contract_evals_compress"] = evals.get("compress", 0)
        obs["contract_evals_decode_array"] = evals.get("decode_array", 0)
        distinct_cells = {json.dumps(s) for s in sigs}
        obs["cells"] = len(distinct_cells)
        return {"sigs": sigs, "sig": None, "nontrivial": bool(sigs), "violations": violations, "obs": dict(obs),
                "sample": {"fmt": fmt, "comp": comp, "attrs": case["attrs"], "examples": len(written)}}
    finally:
        common.rm(work)


def classify(fmt: str, dtype: str, reader: str, want: bytes, got: bytes, presentation: str) -> str:
    if fmt == "npz" and dtype in ("bytes", "str") and want.endswith(b"\x00") and got == want.rstrip(b"\x00"):
        return "npz/bytes|str/trailing-NUL-stripped"
    if fmt == "tfrec" and dtype == "float32" and len(want) == len(got):
        import numpy as np
        a, b = np.frombuffer(want, dtype="<u4"), np.frombuffer(got, dtype="<u4")
        diff = a != b
        is_nan = (a & 0x7F800000) == 0x7F800000
        if diff.any() and bool(np.all(is_nan[diff])) and bool(np.all((a[diff] | 0x00400000) == b[diff])):
            return "tfrec/float32/signalling-NaN-quieted"
    return f"value-mismatch/{fmt}/{dtype}/{reader}/{presentation}"


# ------------------------------------------------------------------------------------------ calibration
def calibrate() -> dict:
    """Which (format, dtype, reader) and (format, presentation) cells are accepted and readable on the
    current tree (simple values).  Wrong values are never baselined."""
    import numpy as np
    from sedpack.io import Dataset
    from sedpack.io.metadata import Attribute
    from rtmon import ds as dsmod, readers
    spec: dict = {"dtype": {}, "presentation": {}}
    rng = np.random.default_rng(0)
    for fmt in ("fb", "npz", "tfrec"):
        spec["dtype"][fmt] = {}
        for dtype in ALL_DTYPES:
            work = common.new_workdir("cal")
            try:
                shape = () if dtype in ("str", "bytes") else (2,)
                attrs = [Attribute(name="id", dtype="int64", shape=()), Attribute(name="v", dtype=dtype, shape=shape)]
                try:
                    dataset = dsmod.create(work / "ds", fmt, "", 2, attrs=attrs)
                    with dataset.filler() as filler:
                        for k in range(3):
                            value = make_values(dtype, shape, "small" if dtype in NUMERIC and dtype != "bool"
                                                else "random" if dtype == "bool" else "ascii", rng)
                            filler.write_example(values={"id": np.int64(k), "v": value}, split="train")
                except Exception:  # pylint: disable=broad-exception-caught
                    continue
                ok = []
                for reader in readers.interfaces_for(fmt, ""):
                    try:
                        got = readers.read(Dataset(dataset.path), reader, "train", shuffle=0, repeat=False)
                        if len(got) == 3:
                            ok.append(reader)
                    except Exception:  # pylint: disable=broad-exception-caught
                        pass
                if ok:
                    spec["dtype"][fmt][dtype] = ok
            finally:
                common.rm(work)
        spec["presentation"][fmt] = []
        for name in PRESENTATIONS:
            accepted = True
            tried = 0
            for dtype in ("float32", "int64", "float64", "int32"):
                if dtype not in spec["dtype"][fmt]:
                    continue
                for shape in ((), (2, 3)):
                    canonical = make_values(dtype, shape, "small", rng)
                    presented = present(canonical, dtype, name, rng)
                    if presented is None:
                        continue
                    tried += 1
                    work = common.new_workdir("cal")
                    try:
                        attrs = [Attribute(name="v", dtype=dtype, shape=shape)]
                        dataset = dsmod.create(work / "ds", fmt, "", 2, attrs=attrs)
                        with dataset.filler() as filler:
                            filler.write_example(values={"v": presented}, split="train")
                        readers.read(Dataset(dataset.path), "sync", "train", shuffle=0, repeat=False)
                    except Exception:  # pylint: disable=broad-exception-caught
                        accepted = False
                    finally:
                        common.rm(work)
            if accepted and tried:
                spec["presentation"][fmt].append(name)
    return spec
