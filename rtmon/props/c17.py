"""C17 Paths taken from metadata cannot escape the dataset directory.

Monitor: the dataset root lives in `zone/root`, canary files (valid shard lists and shard files, so that a
followed path would *succeed silently*) live in `zone/outside`.  A child process performs load / check /
iterate (all interfaces incl. TensorFlow and Rust) / sub-directory writing on crafted datasets while
`strace -f` records every file-system call with its path and a Python audit hook records Python-level
opens.  Violation = any call (successful or not) naming a path under `zone` that is neither under
`zone/root` nor an ancestor of it; or metadata naming a location outside the root on which every
operation completes without error; or any change of the outside tree.
"""
from __future__ import annotations

import json
import os
import random
import shutil
import subprocess
from collections import Counter
from pathlib import Path

from rtmon import common
from rtmon.monitors import strace_log

LEVEL = "exploration"
NEEDS_RUST = True
WORKERS = 12
CASE_TIMEOUT = 600
REQUIRED_OBS = ["crafted_cases", "escaping_paths_tried", "fs_calls_observed", "rejections", "relative_root_cases"]
RULE = ("path grammar (components a, ., .., empty, repeated '/', absolute, deep, trailing '/', shards_list.json in odd "
        "places; targets existing and missing) substituted into every path-valued metadata field (split list path, "
        "child list path, shard file path, relative_path_self) of fb/npz/tfrec datasets and into the writer's "
        "sub-directory argument. Distinct = (format, field, production); non-trivial iff the path resolves outside "
        "the root.")
ASSUMPTIONS = ["symbolic links are not 'path strings' and are out of scope",
               "strace sees every file-system call of Python, TensorFlow and the Rust extension"]

FIELDS = ("split_list", "child_list", "shard_file", "list_self")


def productions(rng: random.Random, leaf: str, tier: str) -> list[tuple[str, str]]:
    """(production name, path string); {OUT} = absolute path of zone/outside, {ROOT} = absolute root."""
    ups = ["..", "../..", "train/../..", "train/sub/../../..", "./..", "train/./..//..", "..//", "train/../../."]
    outs = []
    for up in ups:
        outs.append((f"rel:{up}", f"{up}/outside/{leaf}"))
    outs.append(("rel:deep", "train/" + "x/" * 6 + "../" * 8 + f"outside/{leaf}"))
    outs.append(("abs:outside", "{OUT}/" + leaf))
    outs.append(("abs:outside-dotdot", "{ROOT}/../outside/" + leaf))
    outs.append(("abs:missing", "{OUT}/missing/" + leaf))
    outs.append(("rel:missing", "../outside/missing/" + leaf))
    outs.append(("abs:double-slash", "/{OUT}/" + leaf))
    outs.append(("rel:trailing", f"../outside/{leaf}/") if leaf != "shards_list.json" else
                ("rel:odd-list-name", "../outside/shards_list.json/../shards_list.json"))
    # backslash spellings: one harmless file name on POSIX unless something "normalises" separators
    outs.append(("bs:rel", f"train\\..\\..\\outside\\{leaf}"))
    outs.append(("bs:rel-up", f"..\\outside\\{leaf}"))
    outs.append(("bs:mixed", f"train/..\\..\\outside/{leaf}"))
    outs.append(("bs:abs", "{OUT}".replace("/", "\\") + "\\" + leaf))
    # JSON-level escapes: the same hostile paths, spelled with \u002e and \/ in the raw JSON text
    outs.append(("esc:rel", f"JSONESC:../outside/{leaf}"))
    outs.append(("esc:rel-deep", f"JSONESC:train/../../outside/{leaf}"))
    outs.append(("esc:abs", "JSONESC:{OUT}/" + leaf))
    inside = [("in:dot", "train/./" + leaf), ("in:double-slash", "train//" + leaf),
              ("in:updown", "train/sub/../" + leaf), ("in:abs-inside", "{ROOT}/train/" + leaf)]
    if tier == "thorough":
        for _ in range(12):
            comps = [rng.choice(["..", ".", "a", "", "train", "sub"]) for _ in range(rng.randint(1, 7))]
            outs.append(("rnd:" + "/".join(comps), "/".join(comps) + f"/../outside/{leaf}"))
    return outs + inside


def gen_cases(tier: str, seed: int) -> list[dict]:
    rng = random.Random(seed * 1039 + 17)
    cases = []
    for fmt, comp in (("fb", "LZ4"), ("npz", ""), ("tfrec", "GZIP")):
        batch = []
        for field in FIELDS:
            leaf = "shards_list.json" if field != "shard_file" else f"canary.{fmt}"
            for name, path in productions(rng, leaf, tier):
                batch.append({"kind": "metadata", "field": field, "prod": name, "path": path})
        for name, path in productions(rng, "w", tier):
            batch.append({"kind": "writer", "field": "subdir", "prod": name, "path": path.rsplit("/w", 1)[0] or "."})
        rng.shuffle(batch)
        # one dataset per batch is opened by a path relative to the working directory, which then changes
        for k in range(0, len(batch), 24):
            batch.insert(k, {"kind": "relative-root", "field": "relative_root", "prod": "cwd:chdir", "path": "."})
        size = 24
        for k in range(0, len(batch), size):
            cases.append({"fmt": fmt, "comp": comp, "items": batch[k:k + size], "optimize": (k // size) % 2 == 1})
    return cases


def build_base(base: Path, fmt: str, comp: str) -> None:
    from sedpack.io import DatasetFiller
    from rtmon import ds as dsmod
    dataset = dsmod.create(base, fmt, comp, 2)
    with dataset.filler() as filler:
        for k in range(4):
            filler.write_example(values=dsmod.example(dsmod.make_id("train", 0, 0, k)), split="train")
        filler.write_example(values=dsmod.example(dsmod.make_id("test", 0, 0, 0)), split="test")
    with DatasetFiller(dataset, relative_path_from_split=Path("sub")) as filler:
        for k in range(2):
            filler.write_example(values=dsmod.example(dsmod.make_id("train", 1, 0, k)), split="train")


def craft(zone: Path, base: Path, item: dict, fmt: str) -> dict:
    """Create zone/root (copy of base, one field replaced) and zone/outside (canaries)."""
    root, outside = zone / "root", zone / "outside"
    shutil.copytree(base, root)
    outside.mkdir()
    # canaries: a valid list + valid shard (copies), so that following the path would succeed silently
    shutil.copy(root / "train" / "sub" / "shards_list.json", outside / "shards_list.json")
    some_shard = next((root / "train").glob(f"*.{fmt}"))
    shutil.copy(some_shard, outside / f"canary.{fmt}")
    path = item["path"].replace("{OUT}", str(outside)).replace("{ROOT}", str(root))
    escape = path.startswith("JSONESC:")
    if escape:
        path = path[len("JSONESC:"):]

    def dump(doc) -> str:
        text = json.dumps(doc)
        if escape:
            spelled = path.replace(".", "\\u002e").replace("/", "\\/")
            text = text.replace(json.dumps(path), '"' + spelled + '"')
        return text

    info_path = root / "dataset_info.json"
    info = json.loads(info_path.read_text())
    list_path = root / "train" / "shards_list.json"
    top = json.loads(list_path.read_text())
    if item["kind"] == "writer":
        return {"subdir": path}
    if item["kind"] == "relative-root":
        shutil.copytree(base, outside / "root")        # another dataset under the same relative name
        return {"path": "."}
    if item["field"] == "split_list":
        info["splits"]["train"]["shard_list_info_file"]["file_path"] = path
        info_path.write_text(dump(info))
    elif item["field"] == "child_list":
        top["children_shard_lists"][0]["shard_list_info_file"]["file_path"] = path
        list_path.write_text(dump(top))
    elif item["field"] == "shard_file":
        top["shard_files"][0]["file_infos"][0]["file_path"] = path
        list_path.write_text(dump(top))
    elif item["field"] == "list_self":
        top["relative_path_self"] = path
        list_path.write_text(dump(top))
    return {"path": path}


def resolves_outside(root: Path, path: str, split_prefix: str | None = None) -> bool:
    joined = os.path.normpath(os.path.join(str(root), split_prefix or "", path))
    return not (joined == str(root) or joined.startswith(str(root) + os.sep))


def run_case(case: dict) -> dict:
    from rtmon import readers
    fmt, comp = case["fmt"], case["comp"]
    work = common.new_workdir("c17")
    violations: list[dict] = []
    obs: Counter = Counter()
    sigs = []
    try:
        base = work / "base"
        build_base(base, fmt, comp)
        neutral = work / "cwd"
        neutral.mkdir()
        spec_cases = []
        zones = {}
        for k, item in enumerate(case["items"]):
            zone = work / f"zone{k}"
            zone.mkdir()
            crafted = craft(zone, base, item, fmt)
            label = f"c{k}"
            zones[label] = (zone, item, crafted)
            entry = {"label": label, "kind": item["kind"], "root": str(zone / "root"), "split": "train",
                     "ifaces": readers.interfaces_for(fmt, comp)}
            if item["kind"] == "writer":
                entry["subdir"] = crafted["subdir"]
            spec_cases.append(entry)
        before = {label: snapshot(zone / "outside") for label, (zone, _, _) in zones.items()}
        spec_path, out_path, log_path = work / "spec.json", work / "out.json", work / "strace.log"
        spec_path.write_text(json.dumps({"cases": spec_cases, "cwd": str(neutral), "rust": fmt == "fb"}))
        env = dict(os.environ, PYTHONPATH=str(common.VERIF), TF_CPP_MIN_LOG_LEVEL="3")
        proc = subprocess.run(
            ["strace", "-f", "-y", "-qq", "-s", "4096", "-e", f"trace={strace_log.FS_CALLS}", "-o", str(log_path),
             common.PY] + (["-O"] if case.get("optimize") else []) +
            ["-m", "rtmon.props.c17_child", str(spec_path), str(out_path)],
            cwd=str(common.VERIF), env=env, capture_output=True, text=True, timeout=540, check=False)
        if not out_path.is_file():
            return {"sig": "child-failed", "nontrivial": False, "violations": [],
                    "inconclusive": [f"traced child failed rc={proc.returncode}: {proc.stderr[-600:]}"], "obs": {}}
        child = json.loads(out_path.read_text())
        calls = strace_log.split_by_marker(log_path, str(neutral))
        audit_by_label: dict[str, list] = {}
        for label, event, path in child["audit"]:
            audit_by_label.setdefault(label, []).append((event, path))
        for label, (zone, item, crafted) in zones.items():
            root, outside = zone / "root", zone / "outside"
            outcome = child["results"].get(label, {})
            obs["crafted_cases"] += 1
            observed = calls.get(label, [])
            obs["fs_calls_observed"] += len(observed)
            if not observed:
                violations_in = None
                obs["cases_without_trace"] += 1
            touched = set()
            for _pid, call, path, ret in observed:
                if item["kind"] == "relative-root" and (call == "chdir" or not path.startswith(str(outside / "root"))):
                    # the harness's own change of directory; TensorFlow probing "<argv0>.runfiles" relative to the
                    # working directory is not the library reading dataset files - only the other dataset counts
                    continue
                if is_escape(path, zone, root):
                    touched.add((call, path.replace(str(zone), "<zone>"), ret.split(" ")[0]))
            for event, path in audit_by_label.get(label, []):
                if path and is_escape(os.path.normpath(os.path.join(str(neutral), path)), zone, root):
                    touched.add((f"audit:{event}", path.replace(str(zone), "<zone>"), ""))
            field = item["field"]
            if item["kind"] == "writer":
                escaping = resolves_outside(root, crafted["subdir"], "train")
            else:
                escaping = resolves_outside(root, crafted["path"])
            if escaping:
                obs["escaping_paths_tried"] += 1
                sigs.append([fmt, field, item["prod"]])
            if item["kind"] == "relative-root":
                obs["relative_root_cases"] += 1
                failed = [k for k, v in outcome.items() if v.startswith("raised")]
                if failed:
                    violations.append({"key": "relative-root-dataset-fails-after-chdir",
                                       "msg": f"{fmt}: opened by a relative path, used after a chdir: {({k: outcome[k] for k in failed})}"})
            if touched:
                violations.append({"key": f"touched-outside-root/{field}/{item['prod'].split(':')[0]}",
                                   "msg": f"{fmt} {field}={item['path']!r}: {sorted(touched)[:4]} outcome={outcome}"})
            after = snapshot(outside)
            if after != before[label]:
                violations.append({"key": f"outside-tree-changed/{field}",
                                   "msg": f"{fmt} {field}={item['path']!r}: {sorted(set(after.items()) ^ set(before[label].items()))[:4]}"})
            raised = [k for k, v in outcome.items() if v.startswith("raised")]
            if raised:
                obs["rejections"] += 1
                for k in raised:
                    obs[f"rejected_by:{outcome[k].split(':')[0].replace('raised ', '')}"] += 1
            if escaping and item["kind"] == "metadata":
                relevant = [k for k in outcome if k == "load" or k == "check" or k.startswith("iter:")]
                if outcome.get("load", "").startswith("raised"):
                    continue
                not_raising = [k for k in relevant if k != "load" and not outcome[k].startswith("raised")]
                if field != "list_self" and not_raising:
                    violations.append({"key": f"outside-path-accepted/{field}/{item['prod'].split(':')[0]}",
                                       "msg": f"{fmt} {field}={item['path']!r} names a location outside the root but "
                                              f"{not_raising} completed without error"})
                if field == "list_self" and len(not_raising) == len(relevant) - 1:
                    violations.append({"key": f"outside-path-accepted/{field}/{item['prod'].split(':')[0]}",
                                       "msg": f"{fmt} relative_path_self={item['path']!r} was loaded without any error"})
            if escaping and item["kind"] == "writer" and not outcome.get("write", "").startswith("raised"):
                violations.append({"key": "writer-subdir-escape-accepted",
                                   "msg": f"{fmt} relative_path_from_split={crafted['subdir']!r} accepted"})
        obs["batches_under_python_O"] = int(bool(case.get("optimize")))
        return {"sigs": sigs, "sig": None, "nontrivial": bool(sigs), "violations": violations, "obs": dict(obs),
                "sample": {"fmt": fmt, "items": [[i["field"], i["path"]] for i in case["items"][:4]],
                           "outcomes": {k: v for k, v in list(child["results"].items())[:2]}}}
    finally:
        common.rm(work)


def is_escape(path: str, zone: Path, root: Path) -> bool:
    zone_s, root_s = str(zone), str(root)
    if not (path == zone_s or path.startswith(zone_s + os.sep)):
        return False
    if path == root_s or path.startswith(root_s + os.sep):
        return False
    if root_s.startswith(path + os.sep) or path == zone_s:
        return False   # an ancestor of the root (path resolution touches those)
    return True


def snapshot(directory: Path) -> dict:
    out = {}
    for path in sorted(directory.rglob("*")):
        out[str(path.relative_to(directory))] = path.stat().st_size if path.is_file() else -1
    return out
