"""C04 Shard-list metadata always accounts exactly for what is stored.

Monitor: the independent auditor runs after *every* completed session of a generated history (raw JSON
walk, every shard decoded with the format's own decoder, counts/totals/listing/placement compared),
the writing handle's in-memory description is compared with a fresh open, and icontract postconditions
on `ShardsList.write_config`, `merge_shard_infos` and `Shard.write` are evaluated on every call.
"""
from __future__ import annotations

import random
from collections import Counter

from rtmon import common
from rtmon import history as H
from rtmon.props import _hist

LEVEL = "exploration"
NEEDS_DEPS = True
WORKERS = 14
CASE_TIMEOUT = 300
REQUIRED_OBS = ["sessions_audited", "shard_files_decoded", "handle_vs_disk_comparisons",
                "contract_evals", "refused_writes_in_completed_sessions"]
RULE = ("random histories of 1..6 completed sessions over {root filler, fresh/reused/nested sub-directory "
        "filler, multi-writer call with 1..4 writers} x splits x keep-or-reopen handle x per-session counts around "
        "multiples of the shard size x formats. Distinct = history shape (session kinds, directories, per-split "
        "counts, reopen flags, format, shard size); non-trivial iff >=2 sessions or a nested/multi-writer session.")
ASSUMPTIONS = ["refused writes in 30 % of the histories are shape/rank violations only (what each format refuses is C18's "
               "business)", "one live handle at a time",
               "multi-writer sessions run with single_process=True here; real processes are exercised by C09"]


def gen_cases(tier: str, seed: int) -> list[dict]:
    rng = random.Random(seed * 1009 + 4)
    n = 150 if tier == "quick" else 3000
    cases = []
    for _ in range(n):
        hist = H.gen_history(rng, max_sessions=5 if tier == "quick" else 7)
        if rng.random() < 0.3:
            add_refused_writes(hist, rng)
        cases.append({"hist": hist})
    # the repository's own test-suite under the contracts (every tier: ~40 s on 12 processes)
    cases.append({"kind": "suite-under-contracts", "timeout": 1500})
    return cases


def add_refused_writes(hist: dict, rng: random.Random) -> None:
    """A session in which the caller catches a refused example (wrong shape/rank) and carries on is a completed
    session: put refused writes where the writer's bookkeeping is most delicate - right after a split's last
    accepted write of the session (the open shard may be empty at exit) and at shard boundaries in between."""
    for session in hist["sessions"]:
        if session["kind"] == "multi":
            continue
        writes, out, per_split = session["writes"], [], Counter()
        last_index = {write["split"]: k for k, write in enumerate(writes)}
        for k, write in enumerate(writes):
            out.append(write)
            per_split[write["split"]] += 1
            at_boundary = per_split[write["split"]] % hist["eps"] == 0
            if (last_index[write["split"]] == k and rng.random() < 0.6) or (at_boundary and rng.random() < 0.3):
                out.append({"split": write["split"], "bad": {"kind": rng.choice(["shape", "rank"]), "attr": rng.randrange(2)}})
        session["writes"] = out


def worker_init() -> None:
    from rtmon.monitors import contracts
    contracts.attach({"merge_shard_infos", "ShardsList.write_config", "Shard.write", "hash_checksums"})


def run_suite_under_contracts(case: dict) -> dict:
    """google/sedpack's own tests with all contracts attached (hooks stay off: nothing in /repo changes)."""
    import json
    import os
    import subprocess
    work = common.new_workdir("c04suite")
    try:
        env = dict(os.environ, PYTHONPATH=f"{common.VERIF}:{common.DEPS}", RTMON_CONTRACTS_OUT=str(work / "out"),
                   TF_CPP_MIN_LOG_LEVEL="3")
        proc = subprocess.run([common.PY, "-m", "pytest", "-q", "-p", "no:cacheprovider", "-p", "rtmon.pytest_contracts",
                               "-n", "6", "--timeout=900", "tests"], cwd=str(common.REPO), env=env,
                              capture_output=True, text=True, timeout=1400, check=False)
        evals: Counter = Counter()
        failures = []
        for path in (work / "out").glob("contracts-*.json") if (work / "out").is_dir() else []:
            doc = json.loads(path.read_text())
            evals.update(doc["evals"])
            failures += doc["failures"]
        violations = [{"key": f"contract-in-repository-suite/{f['contract']}", "msg": f["msg"]} for f in failures[:20]]
        tail = proc.stdout.strip().splitlines()[-1] if proc.stdout.strip() else ""
        inconclusive = [] if evals else [f"no contract was evaluated by the repository suite: {tail} {proc.stderr[-300:]}"]
        return {"sig": ["suite-under-contracts"], "nontrivial": True, "violations": violations,
                "inconclusive": inconclusive,
                "obs": {"suite_contract_evals": dict(evals), "suite_contract_evals_total": sum(evals.values()),
                        "contract_evals": sum(evals.values())},
                "sample": {"suite": tail, "contract_evaluations": dict(evals)}}
    finally:
        common.rm(work)


def run_case(case: dict) -> dict:
    if case.get("kind") == "suite-under-contracts":
        return run_suite_under_contracts(case)
    from rtmon.monitors import contracts
    contracts.reset()
    hist = case["hist"]
    work = common.new_workdir("c04")
    violations: list[dict] = []
    obs: Counter = Counter()
    try:
        root = work / "ds"

        def after(k, dataset, model):
            if not model.sessions[k].completed:
                obs["histories_aborted_by_raising_session"] += 1
                return
            _hist.oracle_c04(root, dataset, model, k, violations, obs)

        model = H.run_history(root, hist, after_session=after)
        evals, failures = contracts.snapshot()
        for failure in failures:
            violations.append({"key": f"contract/{failure['contract']}", "msg": failure["msg"]})
        obs["contract_evals"] = sum(evals.values())
        obs["sessions_run"] = len(model.sessions)
        obs["refused_writes_in_completed_sessions"] = sum(1 for w in model.writes if w.bad and not w.accepted)
        obs["refused_kind_accepted_by_format"] = sum(1 for w in model.writes if w.bad and w.accepted)
        kinds = Counter(s.kind for s in model.sessions)
        nontrivial = len(model.sessions) >= 2 or any(
            s["kind"] == "multi" or (s["kind"] == "subdir" and "/" in s["subdir"]) for s in hist["sessions"])
        return {"sig": H.history_shape(hist), "nontrivial": nontrivial, "violations": violations,
                "obs": {**obs, "session_kinds": dict(kinds), "contract_evals_by_name": evals},
                "sample": {"fmt": hist["fmt"], "eps": hist["eps"],
                           "sessions": [[s["kind"], s.get("subdir"), bool(s.get("reopen")),
                                         len(s.get("writes", [])) or [len(w) for w in s.get("writers", [])]]
                                        for s in hist["sessions"]]}}
    finally:
        common.rm(work)
