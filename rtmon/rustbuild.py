"""Build the Rust extension from /repo/rust's current working tree and load it as sedpack._sedpack_rs.

The `.so` the test-suite imports is a git-ignored prebuilt file which may be stale with respect to
rust/src; checks that touch the native reader must observe the working tree, so they build it
(`cargo build --release --offline`, target dir under /verif/.build, nothing written into /repo) and
install the result in sys.modules *before* sedpack.io is imported.
"""
from __future__ import annotations

import fcntl
import importlib.machinery
import importlib.util
import os
import subprocess
import sys
from pathlib import Path

from rtmon import common

TARGET = common.BUILD / "rs"
SO = TARGET / "release" / "libsedpack_rs.so"


def build(quiet: bool = True) -> Path:
    TARGET.mkdir(parents=True, exist_ok=True)
    env = dict(os.environ, CARGO_TARGET_DIR=str(TARGET), CARGO_NET_OFFLINE="true",
               PYO3_PYTHON=common.PY)
    with open(common.BUILD / "rs.lock", "w") as lock:
        fcntl.flock(lock, fcntl.LOCK_EX)
        proc = subprocess.run(
            ["cargo", "build", "--release", "--offline", "--lib", "--manifest-path",
             str(common.REPO / "rust" / "Cargo.toml")],
            env=env, stdout=subprocess.PIPE, stderr=subprocess.STDOUT, text=True, check=False)
    if proc.returncode != 0 or not SO.is_file():
        raise RuntimeError(f"cargo build failed:\n{proc.stdout[-3000:]}")
    if not quiet:
        print(proc.stdout[-400:])
    return SO


def load_built_extension() -> str:
    """Import the freshly built library as `sedpack._sedpack_rs` (must run before sedpack.io)."""
    if not SO.is_file():
        build()
    if "sedpack.io" in sys.modules:
        raise RuntimeError("sedpack.io already imported; the rebuilt extension cannot be substituted")
    import sedpack  # pylint: disable=import-outside-toplevel
    name = "sedpack._sedpack_rs"
    loader = importlib.machinery.ExtensionFileLoader(name, str(SO))
    spec = importlib.util.spec_from_file_location(name, str(SO), loader=loader)
    module = importlib.util.module_from_spec(spec)
    loader.exec_module(module)
    sys.modules[name] = module
    setattr(sedpack, "_sedpack_rs", module)
    return str(SO)
