"""Shared plumbing: paths, environment guards, seeds, scratch directories."""
from __future__ import annotations

import hashlib
import json
import os
import shutil
import subprocess
import sys
import tempfile
from pathlib import Path

VERIF = Path(__file__).resolve().parent.parent
REPO = Path(os.environ.get("RTMON_REPO", "/repo"))
REPO_SRC = REPO / "src"
WORK_ROOT = VERIF / ".work"
DEPS = VERIF / ".deps"
BUILD = VERIF / ".build"
REPLAYS = VERIF / "replays"
EVIDENCE = VERIF / "evidence"
PY = "/venv/bin/python"
WHEELS = "/opt/veriftools/wheels"

# Guard variable reserved for source hooks in google/sedpack (none are needed so far).
GUARD = "SEDPACK_VERIF"


def stable_hash(obj) -> str:
    """Short stable hash of a JSON-able object (independent of PYTHONHASHSEED)."""
    blob = json.dumps(obj, sort_keys=True, default=str).encode()
    return hashlib.sha1(blob).hexdigest()[:12]


def tier_and_seed(argv_tier: str | None, argv_seed: int | None) -> tuple[str, int]:
    tier = argv_tier or os.environ.get("VERIF_TIER") or "quick"
    if tier not in ("quick", "thorough"):
        tier = "quick"
    seed = argv_seed
    if seed is None:
        try:
            seed = int(os.environ.get("VERIF_SEED", "0"))
        except ValueError:
            seed = 0
    return tier, seed


def ensure_deps() -> None:
    """Make icontract importable from /verif/.deps (appended, never prepended)."""
    marker = DEPS / "icontract"
    if not marker.is_dir():
        DEPS.mkdir(parents=True, exist_ok=True)
        subprocess.run(
            [PY, "-m", "pip", "install", "--quiet", "--no-index", "--find-links", WHEELS,
             "--target", str(DEPS), "icontract", "deal"],
            check=True, stdout=subprocess.DEVNULL, stderr=subprocess.PIPE)
    if str(DEPS) not in sys.path:
        sys.path.append(str(DEPS))


def assert_sedpack_is_working_tree() -> None:
    """Refuse to run unless `import sedpack` resolves to the /repo working tree."""
    import sedpack  # pylint: disable=import-outside-toplevel
    where = Path(sedpack.__file__).resolve()
    if not str(where).startswith(str(REPO_SRC.resolve())):
        raise RuntimeError(f"sedpack imported from {where}, expected under {REPO_SRC}")


def new_workdir(tag: str) -> Path:
    WORK_ROOT.mkdir(parents=True, exist_ok=True)
    return Path(tempfile.mkdtemp(prefix=f"{tag}-{os.getpid()}-", dir=WORK_ROOT))


def rm(path: Path | str) -> None:
    shutil.rmtree(path, ignore_errors=True)


def load_known_findings() -> dict[tuple[str, str], str]:
    """(property, key) -> the full KNOWN-FINDING line.  Never written at run time."""
    out: dict[tuple[str, str], str] = {}
    path = VERIF / "KNOWN_FINDINGS.txt"
    if not path.is_file():
        return out
    for line in path.read_text().splitlines():
        line = line.strip()
        if not line.startswith("KNOWN-FINDING:"):
            continue
        fields = dict(tok.split("=", 1) for tok in line.split()[1:3] if "=" in tok)
        if "property" in fields and "key" in fields:
            out[(fields["property"], fields["key"])] = line
    return out
