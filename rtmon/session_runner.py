"""Runs ONE history (usually a single real-process multi-writer session) in a fresh process that has
executed no TensorFlow op (fork-after-TF-op is a TensorFlow hazard, not a sedpack property).

usage: python -m rtmon.session_runner <spec.json> <out.json>
spec: {"root": path, "hist": history, "existing": bool}
"""
from __future__ import annotations

import json
import os
import sys
import warnings

os.environ.setdefault("TF_CPP_MIN_LOG_LEVEL", "3")
warnings.filterwarnings("ignore")


def main() -> None:
    from pathlib import Path
    spec = json.load(open(sys.argv[1], encoding="utf-8"))
    if spec.get("cpu_count"):
        # a machine with few CPUs (configuration): os.cpu_count() is what the library would consult
        count = int(spec["cpu_count"])
        os.cpu_count = lambda: count
    from rtmon import history as H
    out: dict = {"returns": None, "exc": None}
    try:
        if spec.get("existing"):
            from sedpack.io import Dataset
            dataset = Dataset(spec["root"])
            session = spec["hist"]["sessions"][0]
            k = spec.get("session_index", 1)
            attr_set = spec["hist"].get("attrs", "std")
            writers = session["writers"]
            returns = dataset.write_multiprocessing(
                feed_writer=H.feed_writer,
                custom_arguments=[(writes, attr_set, k, w) for w, writes in enumerate(writers)],
                custom_kwarguments=[{"delays": session.get("delays", {}).get(str(w)), "start_at": session.get("start_at")}
                                    for w in range(len(writers))],
                single_process=session.get("single_process", False))
            out["returns"] = returns
        else:
            if spec.get("start_in") is not None:
                import time
                for session in spec["hist"]["sessions"]:
                    if session["kind"] == "multi":
                        session["start_at"] = time.time() + spec["start_in"]
            model = H.run_history(Path(spec["root"]), spec["hist"])
            session = model.sessions[-1]
            out["returns"] = session.returns
            out["exc"] = session.exc
    except BaseException as exc:  # pylint: disable=broad-exception-caught
        out["exc"] = f"{type(exc).__name__}: {str(exc)[:400]}"
    json.dump(out, open(sys.argv[2], "w", encoding="utf-8"), default=str)
    os._exit(0)


if __name__ == "__main__":
    main()
