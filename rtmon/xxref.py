"""Pure-Python reference implementations of XXH32 and XXH64 (seed 0), written from the specification.

Used as an independent oracle for C16 (no external xxhsum tool exists in this sandbox)."""
from __future__ import annotations

import struct

_M32 = 0xFFFFFFFF
_P32 = (2654435761, 2246822519, 3266489917, 668265263, 374761393)


def _rotl32(x: int, r: int) -> int:
    return ((x << r) | (x >> (32 - r))) & _M32


def xxh32(data: bytes, seed: int = 0) -> str:
    p1, p2, p3, p4, p5 = _P32
    n = len(data)
    i = 0
    if n >= 16:
        v = [(seed + p1 + p2) & _M32, (seed + p2) & _M32, seed & _M32, (seed - p1) & _M32]
        while i + 16 <= n:
            lanes = struct.unpack_from("<4I", data, i)
            for k in range(4):
                v[k] = (_rotl32((v[k] + lanes[k] * p2) & _M32, 13) * p1) & _M32
            i += 16
        h = (_rotl32(v[0], 1) + _rotl32(v[1], 7) + _rotl32(v[2], 12) + _rotl32(v[3], 18)) & _M32
    else:
        h = (seed + p5) & _M32
    h = (h + n) & _M32
    while i + 4 <= n:
        (lane,) = struct.unpack_from("<I", data, i)
        h = (_rotl32((h + lane * p3) & _M32, 17) * p4) & _M32
        i += 4
    while i < n:
        h = (_rotl32((h + data[i] * p5) & _M32, 11) * p1) & _M32
        i += 1
    h ^= h >> 15
    h = (h * p2) & _M32
    h ^= h >> 13
    h = (h * p3) & _M32
    h ^= h >> 16
    return f"{h:08x}"


_M64 = 0xFFFFFFFFFFFFFFFF
_P64 = (11400714785074694791, 14029467366897019727, 1609587929392839161,
        9650029242287828579, 2870177450012600261)


def _rotl64(x: int, r: int) -> int:
    return ((x << r) | (x >> (64 - r))) & _M64


def _round64(acc: int, lane: int) -> int:
    acc = (acc + lane * _P64[1]) & _M64
    return (_rotl64(acc, 31) * _P64[0]) & _M64


def _merge64(h: int, v: int) -> int:
    h ^= _round64(0, v)
    return (h * _P64[0] + _P64[3]) & _M64


def xxh64(data: bytes, seed: int = 0) -> str:
    p1, p2, p3, p4, p5 = _P64
    n = len(data)
    i = 0
    if n >= 32:
        v = [(seed + p1 + p2) & _M64, (seed + p2) & _M64, seed & _M64, (seed - p1) & _M64]
        while i + 32 <= n:
            lanes = struct.unpack_from("<4Q", data, i)
            for k in range(4):
                v[k] = _round64(v[k], lanes[k])
            i += 32
        h = (_rotl64(v[0], 1) + _rotl64(v[1], 7) + _rotl64(v[2], 12) + _rotl64(v[3], 18)) & _M64
        for k in range(4):
            h = _merge64(h, v[k])
    else:
        h = (seed + p5) & _M64
    h = (h + n) & _M64
    while i + 8 <= n:
        (lane,) = struct.unpack_from("<Q", data, i)
        h ^= _round64(0, lane)
        h = (_rotl64(h, 27) * p1 + p4) & _M64
        i += 8
    if i + 4 <= n:
        (lane,) = struct.unpack_from("<I", data, i)
        h ^= (lane * p1) & _M64
        h = (_rotl64(h, 23) * p2 + p3) & _M64
        i += 4
    while i < n:
        h ^= (data[i] * p5) & _M64
        h = (_rotl64(h, 11) * p1) & _M64
        i += 1
    h ^= h >> 33
    h = (h * p2) & _M64
    h ^= h >> 29
    h = (h * p3) & _M64
    h ^= h >> 32
    return f"{h:016x}"


# Published known answers (xxHash specification / reference test vectors).
KNOWN = {
    ("xxh32", b""): "02cc5d05",
    ("xxh64", b""): "ef46db3751d8e999",
    ("xxh128", b""): "99aa06d3014798d86001c324468d497f",
    ("xxh32", b"a"): "550d7456",
    ("xxh64", b"a"): "d24ec4f1a98c6e5b",
    ("xxh128", b"a"): "a96faf705af16834e6c632b61e964e1f",
    ("xxh32", b"abc"): "32d153ff",
    ("xxh64", b"abc"): "44bc2cf5ad770999",
    ("xxh128", b"abc"): "06b05ab6733a618578af5f94892f3950",
}
