"""Parser for `strace -f -y -qq -o LOG` output restricted to file-system calls.

Yields (pid, syscall, [path arguments], return text) per completed call; unfinished/resumed pairs are
joined.  Cases are delimited by marker calls on paths `/RTMON/<case>/BEGIN|END` made by the traced
process itself.
"""
from __future__ import annotations

import os
import re
from pathlib import Path

FS_CALLS = ("open,openat,openat2,creat,stat,lstat,newfstatat,statx,access,faccessat,faccessat2,readlink,"
            "readlinkat,mkdir,mkdirat,rename,renameat,renameat2,unlink,unlinkat,link,linkat,symlink,symlinkat,"
            "truncate,chdir,rmdir,getdents64,execve")

_LINE = re.compile(r"^(\d+)\s+(\w+)\((.*)$")
_STR = re.compile(r'"((?:[^"\\]|\\.)*)"')
_RESUMED = re.compile(r"^(\d+)\s+<\.\.\. (\w+) resumed>(.*)$")


def _unescape(text: str) -> str:
    try:
        return text.encode("latin-1", "backslashreplace").decode("unicode_escape").encode("latin-1").decode(
            "utf-8", "replace")
    except Exception:  # pylint: disable=broad-exception-caught
        return text


def parse(log_path: Path, with_args: bool = False):
    pending: dict[tuple[str, str], str] = {}
    with open(log_path, "r", errors="replace") as handle:
        for raw in handle:
            line = raw.rstrip("\n")
            resumed = _RESUMED.match(line)
            if resumed:
                pid, call, rest = resumed.groups()
                head = pending.pop((pid, call), "")
                line = f"{pid} {call}({head}{rest}"
            match = _LINE.match(line)
            if not match:
                continue
            pid, call, rest = match.groups()
            if rest.endswith("<unfinished ...>"):
                pending[(pid, call)] = rest[:-len("<unfinished ...>")]
                continue
            ret = ""
            if " = " in rest:
                rest, ret = rest.rsplit(" = ", 1)
            # strip fd annotations like 3</path> so that they are not taken for path arguments
            args = re.sub(r"\d+<[^>]*>", "FD", rest)
            paths = [_unescape(p) for p in _STR.findall(args)]
            if with_args:
                yield int(pid), call, paths, ret, args
            else:
                yield int(pid), call, paths, ret


def split_by_marker(log_path: Path, cwd: str):
    """-> {case_label: [(pid, call, abs_path, ret), ...]} for calls between BEGIN and END markers."""
    current = None
    out: dict[str, list] = {}
    for pid, call, paths, ret in parse(log_path):
        marker = next((p for p in paths if p.startswith("/RTMON/")), None)
        if marker:
            parts = marker.split("/")
            if parts[-1] == "BEGIN":
                current = parts[2]
                out.setdefault(current, [])
            elif parts[-1] == "END":
                current = None
            continue
        if call == "chdir" and ret.startswith("0") and paths:
            # relative path arguments are interpreted against the working directory of the moment
            cwd = os.path.normpath(paths[0] if paths[0].startswith("/") else os.path.join(cwd, paths[0]))
        if current is None:
            continue
        for path in paths:
            if not path:
                continue
            absolute = path if path.startswith("/") else os.path.join(cwd, path)
            out[current].append((pid, call, os.path.normpath(absolute), ret))
    return out
