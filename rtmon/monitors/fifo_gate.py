"""FIFO gate: control the order in which reader workers complete, for every pipeline that reads shard
files with plain open()+read() — Python threads, asyncio executor threads *and the Rust worker threads* —
without touching the code under test.

Each gated shard file is replaced by a named pipe; a separate feeder process decides which blocked reader
gets its bytes next (seeded policy) and logs release order + ready sets.  Does not work for readers that
need a seekable file (numpy.load on a path, TensorFlow's TFRecord reader): those are perturbed by delay
injection instead.
"""
from __future__ import annotations

import json
import os
import shutil
import signal
import subprocess
import sys
from pathlib import Path

from rtmon import common

FEEDER = Path(__file__).with_name("fifo_feeder.py")


def gateable(fmt: str, iface: str) -> bool:
    if fmt == "fb":
        return True
    return fmt == "npz" and iface == "async"


class Gate:
    def __init__(self, paths: list[Path], workdir: Path, *, policy: str = "random", seed: int = 0,
                 expect: int = 1, rounds: int = 1, settle: float = 0.03):
        self.paths = [Path(p) for p in paths]
        self.dir = Path(workdir) / f"gate-{os.getpid()}-{id(self) % 100000}"
        self.policy, self.seed, self.expect, self.rounds, self.settle = policy, seed, expect, rounds, settle
        self.proc: subprocess.Popen | None = None
        self.log: list[dict] = []

    def __enter__(self) -> "Gate":
        self.dir.mkdir(parents=True)
        blobs = []
        for i, path in enumerate(self.paths):
            blob = self.dir / f"{i}.orig"
            shutil.move(str(path), str(blob))
            os.mkfifo(path)
            blobs.append(str(blob))
        self.blobs = blobs
        spec = {"fifos": [str(p) for p in self.paths], "blobs": blobs, "policy": self.policy, "seed": self.seed,
                "expect": self.expect, "rounds": self.rounds, "log": str(self.dir / "log.json"),
                "settle": self.settle}
        (self.dir / "spec.json").write_text(json.dumps(spec))
        self.proc = subprocess.Popen([common.PY, "-S", "-E", str(FEEDER), str(self.dir / "spec.json")],
                                     stdout=subprocess.DEVNULL, stderr=subprocess.PIPE)
        return self

    def __exit__(self, *exc) -> None:
        if self.proc is not None:
            try:
                self.proc.wait(timeout=0.5)      # normally it exits by itself after the last release
            except subprocess.TimeoutExpired:
                pass
            if self.proc.poll() is None:
                self.proc.send_signal(signal.SIGKILL)
            self.proc.wait()
            err = self.proc.stderr.read().decode(errors="replace") if self.proc.stderr else ""
            self.feeder_error = err[-500:] if self.proc.returncode not in (0, -9) else ""
        log_path = self.dir / "log.json"
        if log_path.is_file():
            try:
                self.log = json.loads(log_path.read_text())
            except json.JSONDecodeError:
                self.log = []
        for path, blob in zip(self.paths, self.blobs):
            try:
                os.unlink(path)
            except OSError:
                pass
            shutil.move(blob, str(path))
        shutil.rmtree(self.dir, ignore_errors=True)

    # ---- observations
    def release_order(self) -> list[int]:
        return [entry["released"] for entry in self.log]

    def max_ready(self) -> int:
        return max((len(entry["ready"]) for entry in self.log), default=0)

    def out_of_order_releases(self) -> int:
        order = self.release_order()
        return sum(1 for a, b in zip(order, order[1:]) if b < a)
