"""Feeder process of the FIFO gate (stdlib only; started with `python -S -E`).

spec: {"fifos": [path...], "blobs": [path of original bytes...], "policy", "seed", "expect", "rounds", "log"}
A FIFO whose open(O_WRONLY|O_NONBLOCK) succeeds has a reader blocked in open(): it is *ready*.  After the
ready set has settled the policy picks one ready FIFO, the original bytes are written into it and it is
closed; the log records the release order and the ready set at each step.
"""
import errno
import json
import os
import random
import sys
import time


def main() -> None:
    spec = json.load(open(sys.argv[1]))
    fifos, blobs = spec["fifos"], spec["blobs"]
    rng = random.Random(spec["seed"])
    policy, expect = spec["policy"], max(1, spec["expect"])
    remaining = {i: spec.get("rounds", 1) for i in range(len(fifos))}
    fds: dict[int, int] = {}
    log = []
    settle = spec.get("settle", 0.03)

    def scan() -> None:
        for i, left in remaining.items():
            if left <= 0 or i in fds:
                continue
            try:
                fds[i] = os.open(fifos[i], os.O_WRONLY | os.O_NONBLOCK)
            except OSError as exc:
                if exc.errno not in (errno.ENXIO, errno.ENOENT):
                    raise

    def flush_log() -> None:
        tmp = spec["log"] + ".tmp"
        with open(tmp, "w") as handle:
            json.dump(log, handle)
        os.replace(tmp, spec["log"])

    while any(left > 0 for left in remaining.values()):
        scan()
        if not fds:
            time.sleep(0.001)
            continue
        # let the other workers reach their open() too
        pending = sum(1 for left in remaining.values() if left > 0)
        deadline = time.monotonic() + settle
        while len(fds) < min(expect, pending) and time.monotonic() < deadline:
            time.sleep(0.001)
            scan()
        ready = sorted(fds)
        if policy == "reverse":
            pick = ready[-1]
        elif policy == "inorder":
            pick = ready[0]
        elif policy == "middle":
            pick = ready[len(ready) // 2]
        else:
            pick = ready[rng.randrange(len(ready))]
        fd = fds.pop(pick)
        os.set_blocking(fd, True)
        with open(blobs[pick], "rb") as handle:
            data = handle.read()
        try:
            view = memoryview(data)
            while view:
                written = os.write(fd, view)
                view = view[written:]
        except BrokenPipeError:
            pass
        os.close(fd)
        remaining[pick] -= 1
        log.append({"released": pick, "ready": ready})
        flush_log()
    flush_log()


if __name__ == "__main__":
    main()
