"""Online contracts (icontract) attached to the real sedpack functions from the harness.

Conditions *record and return True*: a failed condition is appended to `FAILURES` and reported by the
property's oracle, it does not abort the workload (one defect must not mask the rest).  `EVALS` counts
evaluations per contract; zero evaluations means the contract was bypassed (reference bound before
decoration) and the property module reports that as inconclusive.
"""
from __future__ import annotations

import json
from collections import Counter
from pathlib import Path

from rtmon import common
from rtmon import audit as auditor

EVALS: Counter = Counter()
FAILURES: list[dict] = []
_ATTACHED: set[str] = set()


class ContractBroken(Exception):
    """Never raised in practice (conditions record and return True); required by icontract's API."""


def reset() -> None:
    EVALS.clear()
    FAILURES.clear()


def snapshot() -> tuple[dict, list[dict]]:
    return dict(EVALS), list(FAILURES)


def _fail(contract: str, msg: str) -> None:
    if len(FAILURES) < 50:
        FAILURES.append({"contract": contract, "msg": msg[:600]})


# --------------------------------------------------------------------------------- hash_checksums
def _hash_post(file_path, hashes, result) -> bool:
    EVALS["hash_checksums"] += 1
    try:
        data = Path(file_path).read_bytes()
    except OSError:
        return True
    want = tuple(auditor.digest(data, name) for name in hashes)
    if tuple(result) != want:
        _fail("hash_checksums", f"{file_path} {tuple(hashes)}: returned {result}, independent {want}")
    return True


# --------------------------------------------------------------------------------- compress
def _compress_post(self, data, result) -> bool:
    EVALS["compress"] += 1
    try:
        back = auditor.decompress(result, self.compression_type)
    except Exception as exc:  # pylint: disable=broad-exception-caught
        _fail("compress", f"{self.compression_type}: output rejected by an independent decoder: {exc!r}")
        return True
    if back != data:
        _fail("compress", f"{self.compression_type}: decompress(compress(x)) != x ({len(data)} bytes)")
    return True


# --------------------------------------------------------------------------------- decode_array
def _decode_post(np_bytes, attribute, batch_size, result) -> bool:
    import numpy as np  # pylint: disable=import-outside-toplevel
    EVALS["decode_array"] += 1
    if batch_size == 0:
        if tuple(result.shape) != tuple(attribute.shape) or result.dtype != np.dtype(attribute.dtype):
            _fail("decode_array", f"{attribute.name}: got {result.dtype}{result.shape}, declared "
                                  f"{attribute.dtype}{attribute.shape}")
    return True


# --------------------------------------------------------------------------------- filler
def _write_example_post(self, split) -> bool:
    EVALS["write_example"] += 1
    progress = self._current_shards_progress.get(split)  # pylint: disable=protected-access
    if progress is None:
        _fail("write_example", f"no open shard for {split} after an accepted write")
        return True
    eps = self._examples_per_shard  # pylint: disable=protected-access
    if not 1 <= progress.written_examples <= eps:
        _fail("write_example", f"open shard of {split} holds {progress.written_examples} examples (eps={eps})")
    if progress.shard.shard_info.number_of_examples != progress.written_examples:
        _fail("write_example", f"shard counter {progress.shard.shard_info.number_of_examples} != "
                               f"progress counter {progress.written_examples}")
    return True


def _close_shard_post(self, shard, split) -> bool:
    EVALS["close_shard"] += 1
    count = shard.shard_info.number_of_examples
    eps = self._examples_per_shard  # pylint: disable=protected-access
    if not 1 <= count <= eps:
        _fail("close_shard", f"closed shard of {split} records {count} examples (eps={eps})")
    listed = self._shards_lists[split].shard_files  # pylint: disable=protected-access
    if not listed or listed[-1] is not shard.shard_info:
        _fail("close_shard", "closed shard is not the last entry of its list")
    return True


# --------------------------------------------------------------------------------- merge / write_config
def _walk_totals(root: Path, summary: dict) -> tuple[int, int]:
    doc = json.loads((root / summary["shard_list_info_file"]["file_path"]).read_text())
    examples = sum(s.get("number_of_examples", 0) for s in doc.get("shard_files", []))
    shards = len(doc.get("shard_files", []))
    for child in doc.get("children_shard_lists", []):
        c_ex, c_sh = _walk_totals(root, child)
        if c_ex != child.get("number_of_examples", 0) or c_sh != child.get("number_of_shards", 0):
            _fail("merge_shard_infos", f"child summary {child['shard_list_info_file']['file_path']}: "
                                       f"recorded ({child.get('number_of_examples', 0)}, "
                                       f"{child.get('number_of_shards', 0)}) true ({c_ex}, {c_sh})")
        examples += c_ex
        shards += c_sh
    if examples != doc.get("number_of_examples", 0):
        _fail("merge_shard_infos", f"list total {doc.get('number_of_examples', 0)} != {examples} in "
                                   f"{summary['shard_list_info_file']['file_path']}")
    return examples, shards


def _merge_post(dataset_root, result) -> bool:
    EVALS["merge_shard_infos"] += 1
    try:
        examples, shards = _walk_totals(Path(dataset_root), json.loads(result.model_dump_json()))
    except Exception as exc:  # pylint: disable=broad-exception-caught
        _fail("merge_shard_infos", f"returned tree cannot be re-read from disk: {exc!r}")
        return True
    if (examples, shards) != (result.number_of_examples, result.number_of_shards):
        _fail("merge_shard_infos", f"returned ({result.number_of_examples}, {result.number_of_shards}) "
                                   f"but disk holds ({examples}, {shards})")
    return True


def _list_write_config_post(self, dataset_root_path, hashes, result) -> bool:
    EVALS["ShardsList.write_config"] += 1
    own = sum(s.number_of_examples for s in self.shard_files)
    kids = sum(c.number_of_examples for c in self.children_shard_lists)
    if result.number_of_examples != self.number_of_examples:
        _fail("ShardsList.write_config", "returned total differs from the list's total")
    if self.number_of_examples != own + kids:
        _fail("ShardsList.write_config", f"{self.relative_path_self}: total {self.number_of_examples} != "
                                         f"own {own} + children {kids}")
    want_shards = len(self.shard_files) + sum(c.number_of_shards for c in self.children_shard_lists)
    if result.number_of_shards != want_shards:
        _fail("ShardsList.write_config", f"number_of_shards {result.number_of_shards} != {want_shards}")
    if hashes:
        data = (Path(dataset_root_path) / self.relative_path_self).read_bytes()
        want = tuple(auditor.digest(data, name) for name in hashes)
        if tuple(result.shard_list_info_file.hash_checksums) != want:
            _fail("ShardsList.write_config", "returned digests differ from the file just written")
    return True


# --------------------------------------------------------------------------------- Shard.write
def _shard_count(self):
    return self.shard_info.number_of_examples


def _shard_write_post(self, OLD) -> bool:
    EVALS["Shard.write"] += 1
    if self.shard_info.number_of_examples != OLD.count + 1:
        _fail("Shard.write", f"counter went {OLD.count} -> {self.shard_info.number_of_examples} on an "
                             f"accepted write")
    return True


def attach(which: set[str] | None = None) -> set[str]:
    """Attach the contracts (idempotent).  Returns the names attached."""
    common.ensure_deps()
    import icontract  # pylint: disable=import-outside-toplevel
    import sedpack.io.utils as utils  # pylint: disable=import-outside-toplevel
    import sedpack.io.compress as compress  # pylint: disable=import-outside-toplevel
    import sedpack.io.dataset_filler as dataset_filler  # pylint: disable=import-outside-toplevel
    import sedpack.io.merge_shard_infos as merge_mod  # pylint: disable=import-outside-toplevel
    import sedpack.io.dataset_writing as dataset_writing  # pylint: disable=import-outside-toplevel
    import sedpack.io.shard_file_metadata as sfm  # pylint: disable=import-outside-toplevel
    import sedpack.io.shard.shard as shard_mod  # pylint: disable=import-outside-toplevel
    import sedpack.io.flatbuffer.iterate as fb_iterate  # pylint: disable=import-outside-toplevel

    def want(name: str) -> bool:
        return (which is None or name in which) and name not in _ATTACHED

    if want("hash_checksums"):
        utils.hash_checksums = icontract.ensure(_hash_post, error=ContractBroken)(utils.hash_checksums)
        _ATTACHED.add("hash_checksums")
    if want("compress"):
        compress.CompressedFile.compress = icontract.ensure(_compress_post, error=ContractBroken)(
            compress.CompressedFile.compress)
        _ATTACHED.add("compress")
    if want("decode_array"):
        original = fb_iterate.IterateShardFlatBuffer.decode_array

        def decode_array(np_bytes, attribute, batch_size=0):
            result = original(np_bytes=np_bytes, attribute=attribute, batch_size=batch_size)
            _decode_post(np_bytes, attribute, batch_size, result)
            return result

        fb_iterate.IterateShardFlatBuffer.decode_array = staticmethod(decode_array)
        _ATTACHED.add("decode_array")
    if want("write_example"):
        cls = dataset_filler._DatasetFillerContext  # pylint: disable=protected-access
        cls.write_example = icontract.ensure(_write_example_post, error=ContractBroken)(cls.write_example)
        cls.close_shard = icontract.ensure(_close_shard_post, error=ContractBroken)(cls.close_shard)
        _ATTACHED.add("write_example")
    if want("merge_shard_infos"):
        wrapped = icontract.ensure(_merge_post, error=ContractBroken)(merge_mod.merge_shard_infos)
        merge_mod.merge_shard_infos = wrapped
        dataset_writing.merge_shard_infos = wrapped
        _ATTACHED.add("merge_shard_infos")
    if want("ShardsList.write_config"):
        sfm.ShardsList.write_config = icontract.ensure(_list_write_config_post, error=ContractBroken)(
            sfm.ShardsList.write_config)
        _ATTACHED.add("ShardsList.write_config")
    if want("Shard.write"):
        shard_mod.Shard.write = icontract.snapshot(_shard_count, name="count")(
            icontract.ensure(_shard_write_post, error=ContractBroken)(shard_mod.Shard.write))
        _ATTACHED.add("Shard.write")
    return set(_ATTACHED)
