"""Quiescence oracle: decide "blocked for ever" on observed thread states, not on a deadline.

A process (with all its descendants in the same process group) is *quiescent* iff in every one of k
samples taken over >= span seconds every thread is sleeping (state S/D never R), no thread consumed CPU
time and no thread's context-switch counters moved.  A thread that sleeps with a timeout wakes up and
moves its voluntary context-switch counter, so timed waits (delay injection, polling loops) are not
mistaken for a deadlock.  The Python stacks dumped by faulthandler (SIGUSR1) are the witness.
"""
from __future__ import annotations

import os
import signal
import time
from pathlib import Path


def _descendants(pid: int) -> list[int]:
    out, frontier = [pid], [pid]
    while frontier:
        nxt = []
        for p in frontier:
            try:
                for task in os.listdir(f"/proc/{p}/task"):
                    kids = Path(f"/proc/{p}/task/{task}/children").read_text().split()
                    nxt.extend(int(k) for k in kids)
            except OSError:
                continue
        out.extend(nxt)
        frontier = nxt
    return out


def _sample(pids: list[int]) -> dict[tuple[int, int], tuple[str, int, int]]:
    snap = {}
    for pid in pids:
        try:
            tasks = os.listdir(f"/proc/{pid}/task")
        except OSError:
            continue
        for tid in tasks:
            try:
                stat = Path(f"/proc/{pid}/task/{tid}/stat").read_text()
                status = Path(f"/proc/{pid}/task/{tid}/status").read_text()
            except OSError:
                continue
            rest = stat[stat.rindex(")") + 2:].split()
            state, cpu = rest[0], int(rest[11]) + int(rest[12])
            switches = 0
            for line in status.splitlines():
                if line.startswith(("voluntary_ctxt_switches", "nonvoluntary_ctxt_switches")):
                    switches += int(line.split()[1])
            snap[(pid, int(tid))] = (state, cpu, switches)
    return snap


def _io_counters(pid: int) -> tuple:
    try:
        fields = dict(line.split(": ") for line in Path(f"/proc/{pid}/io").read_text().splitlines())
        return tuple(int(fields[k]) for k in ("rchar", "wchar", "syscr", "syscw"))
    except (OSError, KeyError, ValueError):
        return ()


def diagnose(pid: int, log_path: Path | None = None, samples: int = 5, span: float = 2.0,
             scope: str = "tree") -> dict:
    """Return {"verdict": "quiescent"|"active"|"gone", "threads": n, "stacks": str, ...}.

    scope="tree": the process and all its descendants must be asleep (a worker waiting for a busy child is
    not blocked).  scope="process": only the process itself — for workloads whose only helper is a polling
    feeder (FIFO gate), which must not mask a deadlocked worker; a healthy gated pass keeps waking the
    worker's threads, so their context-switch counters move."""
    pids = _descendants(pid) if scope == "tree" else [pid]
    snaps = []
    io_before = _io_counters(pid)
    for k in range(samples):
        snaps.append(_sample(pids))
        if k + 1 < samples:
            time.sleep(span / (samples - 1))
    io_after = _io_counters(pid)
    if not snaps[0]:
        return {"verdict": "gone", "threads": 0, "stacks": ""}
    keys = set(snaps[0])
    active_reasons = []
    cpu_total = 0
    polling = 0
    for snap in snaps[1:]:
        if set(snap) != keys:
            active_reasons.append("thread set changed")
            break
    for key in keys:
        series = [snap.get(key) for snap in snaps]
        if any(s is None for s in series):
            continue
        if any(s[0] not in ("S", "D", "I", "Z", "X") for s in series):   # zombies are not running
            active_reasons.append(f"thread {key} runnable")
        cpu_total += series[-1][1] - series[0][1]
        if scope == "tree":
            if series[-1][1] != series[0][1]:
                active_reasons.append(f"thread {key} used cpu")
            if series[-1][2] != series[0][2]:
                active_reasons.append(f"thread {key} context switches moved")
        elif series[-1][2] != series[0][2]:
            polling += 1
    if scope != "tree" and io_before != io_after:
        # a worker paced by a slow external feeder uses almost no CPU but keeps reading: that is progress
        active_reasons.append(f"process did I/O ({io_before} -> {io_after})")
    if scope != "tree" and cpu_total > 2:
        # "process" scope: a CPython thread waiting for the GIL wakes every 5 ms (timed condition wait) without
        # getting anywhere, so context switches alone do not show progress; what counts is CPU time: at most
        # two clock ticks (20 ms) over the whole sampling span means nobody is computing.
        active_reasons.append(f"threads used {cpu_total} clock ticks of cpu")
    verdict = "active" if active_reasons else "quiescent"
    stacks = ""
    # The stack dump (faulthandler on SIGUSR1) is only requested from a process diagnosed as quiescent: dumping
    # all threads of a process that creates and destroys threads at full speed is best-effort in CPython and
    # was seen to crash busy workers (C13, thousands of short-lived threads).
    if log_path is not None and verdict == "quiescent":
        try:
            before = log_path.stat().st_size
            os.kill(pid, signal.SIGUSR1)
            time.sleep(0.5)
            with open(log_path, "rb") as handle:
                handle.seek(before)
                stacks = handle.read().decode(errors="replace")[-6000:]
        except OSError:
            pass
    return {"verdict": verdict, "threads": len(keys), "processes": len(pids), "cpu_ticks": cpu_total,
            "polling_threads": polling, "reasons": active_reasons[:6], "stacks": stacks}
