"""Kernel-side observation of file opens: inotify IN_OPEN watches on the directories that hold shard files.

Unlike audit hooks or wrappers on Python functions this also sees opens made by native threads of the same
process (TensorFlow's C++ TFRecord readers, the Rust extension), with no tracing overhead.  Events are
queued by the kernel (fs.inotify.max_queued_events, 16384 by default) and drained by the harness when it
takes a measurement; an IN_Q_OVERFLOW event makes the measurement unusable (reported, never guessed).
"""
from __future__ import annotations

import ctypes
import ctypes.util
import os
import struct
from pathlib import Path

IN_OPEN = 0x00000020
IN_Q_OVERFLOW = 0x00004000
IN_NONBLOCK = 0o4000
IN_CLOEXEC = 0o2000000

_libc = ctypes.CDLL(ctypes.util.find_library("c") or "libc.so.6", use_errno=True)
_EVENT = struct.Struct("iIII")


class OpenWatcher:
    """with OpenWatcher(files) as w: ...; w.drain() -> list of file paths in the order they were opened."""

    def __init__(self, files):
        self.files = {str(Path(f)) for f in files}
        self.fd = -1
        self.watches: dict[int, str] = {}
        self.events: list[str] = []
        self.overflow = False

    def __enter__(self):
        self.fd = _libc.inotify_init1(IN_NONBLOCK | IN_CLOEXEC)
        if self.fd < 0:
            raise OSError(ctypes.get_errno(), "inotify_init1")
        for directory in sorted({os.path.dirname(f) for f in self.files}):
            wd = _libc.inotify_add_watch(self.fd, directory.encode(), IN_OPEN)
            if wd < 0:
                err = ctypes.get_errno()
                os.close(self.fd)
                raise OSError(err, f"inotify_add_watch {directory}")
            self.watches[wd] = directory
        return self

    def drain(self) -> list[str]:
        while True:
            try:
                data = os.read(self.fd, 1 << 16)
            except BlockingIOError:
                break
            if not data:
                break
            offset = 0
            while offset + _EVENT.size <= len(data):
                wd, mask, _cookie, length = _EVENT.unpack_from(data, offset)
                name = data[offset + _EVENT.size: offset + _EVENT.size + length].split(b"\0", 1)[0].decode(
                    errors="surrogateescape")
                offset += _EVENT.size + length
                if mask & IN_Q_OVERFLOW:
                    self.overflow = True
                    continue
                if mask & IN_OPEN and wd in self.watches:
                    path = os.path.join(self.watches[wd], name)
                    if path in self.files:
                        self.events.append(path)
        return self.events

    def __exit__(self, *exc):
        if self.fd >= 0:
            os.close(self.fd)
            self.fd = -1
        return False
