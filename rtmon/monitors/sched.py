"""Controlled scheduler for `sedpack.io.itertools.lazy_pool` (the real code, unmodified).

Inside the lazy_pool module only, the names `queue` and `time` and the `start`/`run` methods of
`Collector` are replaced by scheduler-aware shims.  All controlled threads (the consumer and the T
collector threads) hand a baton around: exactly one runs between two scheduling points (every queue
`put`/`get`, every `sleep`, thread start and thread end); a policy picks the next enabled thread.  A `get`
on an empty queue disables the thread until a `put` on that queue.  "Some thread unfinished and none
enabled" is a deadlock, decided on logical state (no clock) and replayable from the choice sequence.
"""
from __future__ import annotations

import collections
import random
import threading
import types


class Abort(BaseException):
    """Raised inside controlled threads to unwind them after a deadlock was diagnosed."""


class Empty(Exception):
    """Stand-in for queue.Empty inside the shimmed module."""


class Full(Exception):
    """Stand-in for queue.Full."""


class Scheduler:
    def __init__(self, policy):
        self.policy = policy
        self.threads: dict[int, dict] = {}
        self.trace: list[int] = []          # chosen thread ids (the schedule)
        self.choices: list[tuple[int, int, int]] = []   # (index chosen, options, index of the running thread or -1)
        self.deadlock: list | None = None
        self.steps = 0
        self.max_depth: dict[str, int] = {}
        self.local = threading.local()
        self.uncontrolled: list[str] = []
        self.now = 0.0                       # virtual time: advances only when no thread is enabled

    # ---- thread bookkeeping
    def register(self, name: str) -> int:
        tid = len(self.threads)
        self.threads[tid] = {"name": name, "state": "R", "sem": threading.Semaphore(0), "on": None,
                             "steps": 0, "exc": None}
        return tid

    def me(self) -> int:
        return self.local.tid

    def enabled(self) -> list[int]:
        return [tid for tid, t in self.threads.items() if t["state"] == "R"]

    def all_workers_finished(self) -> bool:
        return all(t["state"] == "F" for tid, t in self.threads.items() if t["name"] != "consumer")

    def switch(self, me: int) -> None:
        """Called by the baton holder at a scheduling point (it may have just blocked or finished)."""
        if self.deadlock is not None:
            raise Abort()
        enabled = self.enabled()
        if not enabled:
            timed = sorted((tid for tid, t in self.threads.items() if t["state"] in ("T", "Z")),
                           key=lambda k: (self.threads[k].get("deadline", self.now), k))
            if timed:
                # Virtual time advances.  Timers never fire early but may fire late: every timed thread whose
                # deadline lies within a jitter window after the earliest one is a candidate for "fires first";
                # the policy picks one, the clock jumps to its deadline and every timer that is due by then
                # fires too (in any order the policy likes) - check-then-act windows around timeouts open up.
                first = self.threads[timed[0]].get("deadline", self.now)
                jitter = 0.05 + 0.6 * max(0.0, first - self.now)
                candidates = [tid for tid in timed if self.threads[tid].get("deadline", self.now) <= first + jitter]
                pick = candidates[self.policy.choose(self, me, candidates)] if len(candidates) > 1 else candidates[0]
                self.now = max(self.now, self.threads[pick].get("deadline", self.now))
                enabled = []
                for tid in timed:
                    if self.threads[tid].get("deadline", self.now) <= self.now:
                        self.threads[tid]["expired"] = self.threads[tid]["state"] == "T"
                        self.threads[tid]["state"] = "R"
                        enabled.append(tid)
            elif all(t["state"] == "F" for t in self.threads.values()):
                return
            else:
                self.deadlock = [(t["name"], t["state"], describe(t["on"])) for t in self.threads.values()]
                for tid, thread in self.threads.items():
                    if thread["state"] != "F" and tid != me:
                        thread["sem"].release()
                raise Abort()
        self.steps += 1
        index = self.policy.choose(self, me, enabled)
        nxt = enabled[index]
        self.choices.append((index, len(enabled), enabled.index(me) if me in enabled else -1))
        self.trace.append(nxt)
        self.threads[nxt]["steps"] += 1
        if nxt != me:
            self.threads[nxt]["sem"].release()
            if self.threads[me]["state"] != "F":
                self.threads[me]["sem"].acquire()
                if self.deadlock is not None:
                    raise Abort()

    def sleep(self, me: int, seconds: float) -> None:
        """A controlled thread sleeps for `seconds` of virtual time (e.g. a consumer that pauses)."""
        thread = self.threads[me]
        thread["state"], thread["on"], thread["deadline"] = "Z", "sleep", self.now + max(0.0, seconds)
        self.switch(me)
        thread["on"] = None

    def wake_waiters(self, obj) -> None:
        for thread in self.threads.values():
            if thread["state"] in ("B", "T") and (thread["on"] is obj or (
                    isinstance(obj, str) and thread["on"] == obj)):
                thread["state"] = "R"
                thread["on"] = None


def describe(obj) -> str:
    if obj is None:
        return ""
    if isinstance(obj, str):
        return obj
    return getattr(obj, "label", type(obj).__name__)


# ------------------------------------------------------------------------------------------ policies
class RandomPolicy:
    def __init__(self, seed: int):
        self.rng = random.Random(seed)

    def choose(self, sched: Scheduler, me: int, enabled: list[int]) -> int:
        return self.rng.randrange(len(enabled))


class StickyRandomPolicy:
    """Keeps running the current thread with probability p (long uninterrupted runs + rare preemptions)."""

    def __init__(self, seed: int, stay: float = 0.8):
        self.rng = random.Random(seed)
        self.stay = stay

    def choose(self, sched: Scheduler, me: int, enabled: list[int]) -> int:
        if me in enabled and self.rng.random() < self.stay:
            return enabled.index(me)
        return self.rng.randrange(len(enabled))


class PCTPolicy:
    """PCT-style: random thread priorities, d-1 random priority-change points."""

    def __init__(self, seed: int, depth: int = 3, horizon: int = 120):
        self.rng = random.Random(seed)
        self.priorities: dict[int, float] = {}
        self.change_points = {self.rng.randrange(1, horizon) for _ in range(max(0, depth - 1))}

    def choose(self, sched: Scheduler, me: int, enabled: list[int]) -> int:
        for tid in enabled:
            if tid not in self.priorities:
                self.priorities[tid] = self.rng.random() + 1.0
        if sched.steps in self.change_points and me in self.priorities:
            self.priorities[me] = self.rng.random() * 0.5   # demote the running thread
        best = max(enabled, key=lambda tid: self.priorities[tid])
        return enabled.index(best)


class ReplayPolicy:
    """Follows a recorded list of choice indices, then falls back to index 0 (used by DFS and --replay)."""

    def __init__(self, prefix: list[int]):
        self.prefix = list(prefix)
        self.pos = 0

    def choose(self, sched: Scheduler, me: int, enabled: list[int]) -> int:
        if self.pos < len(self.prefix):
            index = min(self.prefix[self.pos], len(enabled) - 1)
        else:
            # default continuation: keep running the current thread if possible (no preemption)
            index = enabled.index(me) if me in enabled else 0
        self.pos += 1
        return index


# ------------------------------------------------------------------------------------------ shims
def install(lazy_pool_module, get_sched):
    """Replace queue/time/Collector.start/run inside the given module.  Returns an `uninstall()`."""
    originals = {"queue": lazy_pool_module.queue, "time": lazy_pool_module.time,
                 "start": lazy_pool_module.Collector.start, "run": lazy_pool_module.Collector.run,
                 "is_alive": lazy_pool_module.Collector.is_alive, "join": lazy_pool_module.Collector.join}
    counter = {"q": 0}

    class ControlledQueue:
        def __class_getitem__(cls, item):
            return cls

        def __init__(self, maxsize: int = 0):
            self.items: collections.deque = collections.deque()
            self.maxsize = maxsize
            counter["q"] += 1
            self.label = f"queue#{counter['q']}"

        def qsize(self) -> int:
            return len(self.items)

        def empty(self) -> bool:
            return not self.items

        def full(self) -> bool:
            return 0 < self.maxsize <= len(self.items)

        def put(self, item, block: bool = True, timeout=None) -> None:
            sched = get_sched()
            me = sched.me()
            while self.full():
                if not block:
                    raise Full()
                sched.threads[me]["state"] = "B"
                sched.threads[me]["on"] = ("full", self)
                sched.switch(me)
            self.items.append(item)
            sched.max_depth[self.label] = max(sched.max_depth.get(self.label, 0), len(self.items))
            sched.wake_waiters(self)
            sched.switch(me)

        def put_nowait(self, item) -> None:
            self.put(item, block=False)

        def get(self, block: bool = True, timeout=None):
            sched = get_sched()
            me = sched.me()
            sched.switch(me)
            while not self.items:
                if not block:
                    raise Empty()
                thread = sched.threads[me]
                thread["state"] = "T" if timeout is not None else "B"
                thread["on"] = self
                thread["deadline"] = sched.now + (timeout or 0.0)
                thread.pop("expired", None)
                sched.switch(me)
                if thread.pop("expired", False) and not self.items:
                    raise Empty()
            item = self.items.popleft()
            for other in sched.threads.values():
                if other["state"] == "B" and other["on"] == ("full", self):
                    other["state"], other["on"] = "R", None
            return item

        def get_nowait(self):
            return self.get(block=False)

        def task_done(self) -> None:
            pass

    def controlled_sleep(seconds: float = 0.0) -> None:
        sched = get_sched()
        if seconds and seconds > 0:
            sched.sleep(sched.me(), seconds)
        else:
            sched.switch(sched.me())

    def start(self) -> None:
        sched = get_sched()
        self._rtmon_tid = sched.register(f"worker{len(sched.threads)}")
        originals["start"](self)

    def run(self) -> None:
        sched = get_sched()
        tid = self._rtmon_tid
        sched.local.tid = tid
        thread = sched.threads[tid]
        thread["sem"].acquire()            # wait for the first turn
        try:
            if sched.deadlock is None:
                originals["run"](self)
        except Abort:
            pass
        except BaseException as exc:  # pylint: disable=broad-exception-caught
            thread["exc"] = repr(exc)      # the thread died with an exception (like threading would print)
        finally:
            thread["state"] = "F"
            if sched.all_workers_finished():
                sched.wake_waiters("join-workers")
            for other in sched.threads.values():
                if other["state"] in ("B", "T") and other["on"] == ("join", tid):
                    other["state"], other["on"] = "R", None
            if sched.deadlock is None:
                try:
                    sched.switch(tid)
                except Abort:
                    pass

    lazy_pool_module.queue = types.SimpleNamespace(Queue=ControlledQueue, Empty=Empty, Full=Full,
                                                   SimpleQueue=ControlledQueue, LifoQueue=None)
    lazy_pool_module.time = types.SimpleNamespace(sleep=controlled_sleep, time=lambda: get_sched().now,
                                                  monotonic=lambda: get_sched().now,
                                                  perf_counter=lambda: get_sched().now)
    def is_alive(self) -> bool:
        """Liveness as the scheduler knows it; asking is a scheduling point (a check-then-act window)."""
        sched = get_sched()
        tid = getattr(self, "_rtmon_tid", None)
        if tid is None:
            return originals["is_alive"](self)
        sched.switch(sched.me())
        return sched.threads[tid]["state"] != "F"

    def join(self, timeout=None) -> None:
        sched = get_sched()
        tid = getattr(self, "_rtmon_tid", None)
        if tid is None:
            return originals["join"](self, timeout)
        me = sched.me()
        while sched.threads[tid]["state"] != "F":
            thread = sched.threads[me]
            thread["state"] = "T" if timeout is not None else "B"
            thread["on"] = ("join", tid)
            thread["deadline"] = sched.now + (timeout or 0.0)
            thread.pop("expired", None)
            sched.switch(me)
            if thread.pop("expired", False):
                return
        return None

    lazy_pool_module.Collector.start = start
    lazy_pool_module.Collector.run = run
    lazy_pool_module.Collector.is_alive = is_alive
    lazy_pool_module.Collector.join = join

    def uninstall() -> None:
        lazy_pool_module.queue = originals["queue"]
        lazy_pool_module.time = originals["time"]
        lazy_pool_module.Collector.start = originals["start"]
        lazy_pool_module.Collector.run = originals["run"]
        lazy_pool_module.Collector.is_alive = originals["is_alive"]
        lazy_pool_module.Collector.join = originals["join"]

    return uninstall


def join_workers(sched: Scheduler) -> None:
    """Called by the consumer after leaving the pool's context: wait (in scheduler terms) until every
    worker finished.  A worker that can never finish is diagnosed as a deadlock."""
    me = sched.me()
    while not sched.all_workers_finished():
        sched.threads[me]["state"] = "B"
        sched.threads[me]["on"] = "join-workers"
        sched.switch(me)
    sched.threads[me]["state"] = "R"
