"""Seeded delay injection for OS-scheduled pipelines: the per-shard read functions are wrapped with small
heavy-tailed sleeps *outside* any lock of the code under test (which worker meets a fault first, in which
order workers complete)."""
from __future__ import annotations

import contextlib
import random
import threading
import time


@contextlib.contextmanager
def inject(seed: int | None, scale: float = 0.004, slow_paths: dict | None = None):
    """slow_paths: {path string: seconds} — reads of these shard files start that much later (a fault that
    is met late, after the other workers have long finished)."""
    if seed is None and not slow_paths:
        yield {"sleeps": 0}
        return
    if seed is None:
        seed = 0
        scale = 0.0
    from sedpack.io.flatbuffer import IterateShardFlatBuffer
    from sedpack.io.npz import IterateShardNP
    from sedpack.io.tfrec import IterateShardTFRec
    rng = random.Random(seed)
    lock = threading.Lock()
    stats = {"sleeps": 0}
    slow_worker = rng.randrange(4)

    def nap():
        with lock:
            stats["sleeps"] += 1
            roll = rng.random()
            base = rng.random() * scale
            ident = threading.get_ident() % 4
        delay = base * (10 if roll < 0.1 else 1) * (4 if ident == slow_worker else 1)
        time.sleep(delay)

    patched = []
    for cls in (IterateShardFlatBuffer, IterateShardNP, IterateShardTFRec):
        for name in ("process_and_list", "iterate_shard"):
            original = cls.__dict__.get(name)
            if original is None:
                continue

            def wrapper(self, *args, _orig=original, **kwargs):
                nap()
                if slow_paths:
                    target = str(args[0] if args else next(iter(kwargs.values()), ""))
                    if target in slow_paths:
                        time.sleep(slow_paths[target])
                return _orig(self, *args, **kwargs)

            setattr(cls, name, wrapper)
            patched.append((cls, name, original))
    try:
        yield stats
    finally:
        for cls, name, original in patched:
            setattr(cls, name, original)


@contextlib.contextmanager
def hash_yield(seed: int = 0):
    """Make every hash-object update of sedpack.io.utils yield the processor first (values unchanged).

    A digest computed from a buffer that another thread may overwrite between `readinto` and `update`
    becomes observable; correct code (private buffer per call) is unaffected."""
    import sedpack.io.utils as utils
    original = getattr(utils, "_get_hash_function", None)
    stats = {"yields": 0}
    if original is None:
        yield stats
        return
    rng = random.Random(seed)
    lock = threading.Lock()

    class Proxy:
        def __init__(self, inner):
            self._inner = inner

        def update(self, data):
            with lock:
                stats["yields"] += 1
                nap = rng.random() * 0.002
            time.sleep(nap)
            return self._inner.update(data)

        def __getattr__(self, name):
            return getattr(self._inner, name)

    def patched(name):
        return Proxy(original(name))

    utils._get_hash_function = patched
    try:
        yield stats
    finally:
        utils._get_hash_function = original
