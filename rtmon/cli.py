"""./check <Cxx> [--tier quick|thorough] [--seed N] [--replay FILE] [--max-cases N]

Verdicts: held -> exit 0; violated -> `VIOLATION property=<id> replay=<path>` per distinct witness, exit 1;
inconclusive (deciding monitor never reached, undecidable watchdog, tooling failure) -> exit 2, no
VIOLATION line.  Evidence is rewritten on every run.
"""
from __future__ import annotations

import argparse
import importlib
import json
import os
import sys
import time
from collections import Counter

from rtmon import common
from rtmon import orchestrator


def merge_obs(total: dict, obs: dict) -> None:
    """ints are summed, lists are unioned (distinct values), dicts of ints are summed per key,
    keys starting with 'max_' keep the maximum."""
    for key, value in (obs or {}).items():
        if isinstance(value, bool):
            value = int(value)
        if key.startswith("max_") and isinstance(value, (int, float)):
            total[key] = max(total.get(key, value), value)
        elif isinstance(value, (int, float)):
            total[key] = total.get(key, 0) + value
        elif isinstance(value, list):
            total.setdefault(key, set()).update(json.dumps(v, sort_keys=True) if not isinstance(v, str) else v
                                                for v in value)
        elif isinstance(value, dict):
            sub = total.setdefault(key, {})
            for k2, v2 in value.items():
                if isinstance(v2, (int, float)):
                    sub[k2] = sub.get(k2, 0) + v2
                elif isinstance(v2, list):
                    sub.setdefault(k2, set()).update(map(str, v2))


def finish_obs(total: dict) -> dict:
    out = {}
    for key, value in total.items():
        if isinstance(value, set):
            out[f"{key}__distinct"] = len(value)
            out[f"{key}__some"] = sorted(value)[:12]
        elif isinstance(value, dict):
            out[key] = {k: (len(v) if isinstance(v, set) else v) for k, v in sorted(value.items())}
        else:
            out[key] = value
    return out


def main(argv: list[str] | None = None) -> int:
    parser = argparse.ArgumentParser()
    parser.add_argument("prop")
    parser.add_argument("--tier", default=None)
    parser.add_argument("--seed", type=int, default=None)
    parser.add_argument("--replay", default=None)
    parser.add_argument("--max-cases", type=int, default=None)
    parser.add_argument("--workers", type=int, default=None)
    parser.add_argument("--no-evidence", action="store_true")
    args = parser.parse_args(argv)

    prop = args.prop.upper()
    modname = prop.lower()
    tier, seed = common.tier_and_seed(args.tier, args.seed)
    t0 = time.monotonic()
    module = importlib.import_module(f"rtmon.props.{modname}")

    if getattr(module, "NEEDS_DEPS", False):
        common.ensure_deps()
    if getattr(module, "NEEDS_RUST", False):
        from rtmon import rustbuild  # pylint: disable=import-outside-toplevel
        rustbuild.build()

    ctx: dict = {"tier": tier, "seed": seed}
    if hasattr(module, "prepare"):
        module.prepare(ctx)

    if args.replay:
        with open(args.replay, encoding="utf-8") as handle:
            replay = json.load(handle)
        cases = [replay["case"]]
        print(f"replaying {args.replay}: {replay.get('key')}")
    else:
        cases = module.gen_cases(tier, seed)
        if args.max_cases:
            cases = cases[:args.max_cases]
    for i, case in enumerate(cases):
        case.setdefault("n", i)

    workers = args.workers or min(getattr(module, "WORKERS", 14), os.cpu_count() or 4)
    print(f"[{prop}] tier={tier} seed={seed} cases={len(cases)} workers={workers}", flush=True)
    records = orchestrator.run_cases(
        modname, cases, workers=workers,
        case_timeout=getattr(module, "CASE_TIMEOUT", 180.0),
        quiescence_after=getattr(module, "QUIESCENCE_AFTER", 45.0),
        env_extra=getattr(module, "ENV", None),
        rss_limit=getattr(module, "MEMORY_LIMIT", None),
        quiescence_scope=getattr(module, "QUIESCENCE_SCOPE", "tree"))
    if hasattr(module, "finalize"):
        module.finalize(ctx, records)

    known = common.load_known_findings()
    violations: list[dict] = []      # {"key", "msg", "case", "detail"}
    inconclusive: list[str] = []
    obs_total: dict = {}
    sigs_nontrivial: set[str] = set()
    samples: list = []
    outcome_counts: Counter = Counter()

    for record in records:
        case = record["case"]
        if "res" in record:
            res = record["res"]
            outcome_counts["completed"] += 1
            merge_obs(obs_total, res.get("obs"))
            if res.get("nontrivial"):
                for sig in (res["sigs"] if "sigs" in res else [res.get("sig")]):
                    sigs_nontrivial.add(json.dumps(sig, sort_keys=True, default=str))
            for violation in res.get("violations", []):
                violations.append({"key": violation["key"], "msg": violation.get("msg", ""),
                                   "detail": violation.get("detail"), "case": case})
            for note in res.get("inconclusive", []):
                inconclusive.append(f"case {case.get('n')}: {note}")
            if len(samples) < 4 and res.get("sample") is not None:
                samples.append(res["sample"])
        elif "error" in record:
            outcome_counts["exception"] += 1
            if record.get("sedpack_frame"):
                key = f"unexpected-exception/{record.get('etype')}"
                if hasattr(module, "classify_exception"):
                    key = module.classify_exception(case, record) or key
                violations.append({"key": key, "msg": record["error"][-1500:], "detail": None, "case": case})
            else:
                inconclusive.append(f"case {case.get('n')}: harness error\n{record['error'][-1500:]}")
        elif record.get("skipped"):
            outcome_counts["skipped_after_repeated_hangs"] += 1
        elif record.get("timeout"):
            outcome_counts["timeout"] += 1
            handler = getattr(module, "on_timeout", None)
            verdict = handler(case, record) if handler else None
            if handler is None and record.get("diag", {}).get("verdict") == "quiescent":
                # every workload is expected to terminate: a worker whose threads are all asleep, use no
                # CPU and make no context switches is blocked for ever inside the code under test
                verdict = {"violation": "blocked-forever",
                           "msg": f"no result after {record.get('elapsed', 0):.0f}s and the worker is quiescent; stacks:\n"
                                  f"{record.get('diag', {}).get('stacks', '')[-1500:]}"}
            if verdict and verdict.get("violation"):
                violations.append({"key": verdict["violation"], "msg": verdict.get("msg", ""),
                                   "detail": {"diag": record.get("diag")}, "case": case})
            else:
                inconclusive.append(f"case {case.get('n')}: watchdog fired after {record.get('elapsed', 0):.0f}s, "
                                    f"state={record.get('diag', {}).get('verdict')} "
                                    f"{record.get('diag', {}).get('reasons')}")
        else:
            outcome_counts["died"] += 1
            handler = getattr(module, "on_died", None)
            verdict = handler(case, record) if handler else None
            if verdict and verdict.get("violation"):
                violations.append({"key": verdict["violation"], "msg": verdict.get("msg", ""),
                                   "detail": None, "case": case})
            else:
                inconclusive.append(f"case {case.get('n')}: worker died: {record.get('died', '')[-800:]}")

    obs = finish_obs(obs_total)
    required = getattr(module, "REQUIRED_OBS", [])
    for name in required:
        value = obs_total.get(name)
        if not value:
            inconclusive.append(f"deciding monitor counter '{name}' is zero: nothing was observed")

    # Classify violations against the known-findings file.
    new_violations, known_hits = [], {}
    for violation in violations:
        line = known.get((prop, violation["key"]))
        if line is not None:
            known_hits.setdefault(violation["key"], [line, 0])[1] += 1
        else:
            new_violations.append(violation)
    for key, (line, count) in sorted(known_hits.items()):
        print(f"{line}  [observed {count}x in this run]")
    for (kprop, key), line in known.items():
        if kprop == prop and key not in known_hits:
            print(f"note: listed finding key={key} was not reproduced by this run")

    # Distinct witnesses -> replay files.
    common.REPLAYS.mkdir(exist_ok=True)
    reported = {}
    for violation in new_violations:
        reported.setdefault(violation["key"], []).append(violation)
    exit_code = 0
    if not args.replay or new_violations:
        for key, group in sorted(reported.items()):
            first = group[0]
            path = common.REPLAYS / f"{prop}-{common.stable_hash([key, first['case']])}.json"
            path.write_text(json.dumps({"property": prop, "key": key, "msg": first["msg"],
                                        "detail": first["detail"], "case": first["case"],
                                        "tier": tier, "seed": seed, "occurrences": len(group)},
                                       indent=1, default=str))
            print(f"VIOLATION property={prop} replay={path}")
            print(f"  key={key} ({len(group)} case(s)): {first['msg'][:600]}")
            exit_code = 1

    if outcome_counts.get("skipped_after_repeated_hangs") and not reported:
        inconclusive.append(f"{outcome_counts['skipped_after_repeated_hangs']} cases were skipped after repeated watchdog firings")
    if exit_code == 0 and inconclusive:
        print(f"INCONCLUSIVE property={prop}: {len(inconclusive)} undecided item(s)")
        for item in inconclusive[:8]:
            print("  " + item[:1500])
        exit_code = 2

    wall = time.monotonic() - t0
    if not args.replay and not args.no_evidence:
        evidence = {
            "property_id": prop,
            "tier": tier,
            "seed": seed,
            "level": module.LEVEL,
            "coverage": {
                "evaluations": len(records),
                "distinct_nontrivial": len(sigs_nontrivial),
                "rule": module.RULE,
                "samples": samples or [r["case"] for r in records[:2]],
                "outcomes": dict(outcome_counts),
                "observed": obs,
                "verdict": {0: "held on what was observed", 1: "violated", 2: "inconclusive"}[exit_code],
                "known_findings_observed": {k: v[1] for k, v in known_hits.items()},
                "inconclusive_items": len(inconclusive),
            },
            "assumptions": getattr(module, "ASSUMPTIONS", []),
            "wall_s": round(wall, 2),
            "violations": len(reported),
        }
        if hasattr(module, "extra_evidence"):
            evidence["coverage"].update(module.extra_evidence(ctx, records) or {})
        common.EVIDENCE.mkdir(exist_ok=True)
        (common.EVIDENCE / f"{prop}.json").write_text(json.dumps(evidence, indent=1, default=str) + "\n")

    print(f"[{prop}] {('HELD', 'VIOLATED', 'INCONCLUSIVE')[exit_code]} cases={len(records)} "
          f"distinct_nontrivial={len(sigs_nontrivial)} outcomes={dict(outcome_counts)} wall={wall:.1f}s")
    for key, value in obs.items():
        if not key.endswith("__some"):
            print(f"    {key}: {value}")
    return exit_code


if __name__ == "__main__":
    sys.exit(main())
