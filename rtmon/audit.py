"""Independent auditor of an on-disk dataset tree.

It does not use sedpack's pydantic models or readers: metadata is walked as raw JSON, every shard file
is decoded with the format's own single-shard decoder (FlatBuffers accessors / numpy.load / TFRecord +
tf.train.Example proto) and digests are recomputed with hashlib/xxhash one-shot calls.
"""
from __future__ import annotations

import bz2
import gzip
import hashlib
import io
import json
import lzma
from dataclasses import dataclass, field
from pathlib import Path
from typing import Any

import numpy as np


def digest(data: bytes, algorithm: str) -> str:
    if algorithm.startswith("xxh"):
        import xxhash  # pylint: disable=import-outside-toplevel
        return getattr(xxhash, algorithm)(data).hexdigest()
    return hashlib.new(algorithm, data).hexdigest()


def decompress(data: bytes, comp: str) -> bytes:
    if comp == "":
        return data
    if comp in ("GZIP", "ZLIB"):
        return gzip.decompress(data)
    if comp == "BZ2":
        return bz2.decompress(data)
    if comp == "LZMA":
        return lzma.decompress(data)
    if comp == "LZ4":
        import lz4.frame  # pylint: disable=import-outside-toplevel
        return lz4.frame.decompress(data)
    if comp == "ZSTD":
        import zstandard  # pylint: disable=import-outside-toplevel
        return zstandard.decompress(data)
    raise ValueError(comp)


def decode_shard(path: Path, fmt: str, comp: str, attrs: list[dict]) -> list[dict[str, Any]]:
    """Decode one shard file into a list of {attribute name: value}.  Raises if undecodable.

    `attrs`: list of {"name", "dtype", "shape"} from the raw dataset description.
    """
    if fmt == "fb":
        import sedpack.io.flatbuffer.shardfile.Shard as fb_shard  # pylint: disable=import-outside-toplevel
        content = decompress(Path(path).read_bytes(), comp)
        if len(content) < 8:
            raise ValueError("FlatBuffers shard shorter than a root table")
        shard = fb_shard.Shard.GetRootAs(content, 0)
        out = []
        for k in range(shard.ExamplesLength()):
            ex = shard.Examples(k)
            if ex.AttributesLength() != len(attrs):
                raise ValueError(f"example {k} has {ex.AttributesLength()} attributes, expected {len(attrs)}")
            row = {}
            for j, attr in enumerate(attrs):
                raw = ex.Attributes(j).AttributeBytesAsNumpy()
                raw = bytes(raw) if not isinstance(raw, int) else b""
                if attr["dtype"] in ("str", "bytes"):
                    row[attr["name"]] = raw
                else:
                    row[attr["name"]] = np.frombuffer(raw, dtype=np.dtype(attr["dtype"]).newbyteorder("<")) \
                        .reshape(tuple(attr["shape"]))
            out.append(row)
        return out
    if fmt == "npz":
        with np.load(io.BytesIO(Path(path).read_bytes()), allow_pickle=False) as content:
            arrays = {name: content[name] for name in content.files}
        lengths = {len(v) for v in arrays.values()}
        if len(lengths) > 1:
            raise ValueError(f"npz shard with unequal attribute lengths {sorted(lengths)}")
        n = lengths.pop() if lengths else 0
        return [{name: arr[i] for name, arr in arrays.items()} for i in range(n)]
    if fmt == "tfrec":
        import tensorflow as tf  # pylint: disable=import-outside-toplevel
        out = []
        for record in tf.data.TFRecordDataset(str(path), compression_type=comp).as_numpy_iterator():
            proto = tf.train.Example.FromString(record)
            row = {}
            for attr in attrs:
                if attr["name"] not in proto.features.feature:
                    raise ValueError(f"record without feature {attr['name']}")
                feature = proto.features.feature[attr["name"]]
                kind = feature.WhichOneof("kind")
                if kind == "int64_list":
                    row[attr["name"]] = np.array(feature.int64_list.value, dtype=np.int64)
                elif kind == "float_list":
                    row[attr["name"]] = np.array(feature.float_list.value, dtype=np.float32)
                elif kind == "bytes_list":
                    row[attr["name"]] = list(feature.bytes_list.value)
                else:
                    raise ValueError(f"feature {attr['name']} is empty (no kind set)")
                if kind in ("int64_list", "float_list") and len(row[attr["name"]]) != int(
                        np.prod(attr["shape"], dtype=np.int64)):
                    raise ValueError(f"feature {attr['name']} has {len(row[attr['name']])} values, "
                                     f"expected shape {attr['shape']}")
            out.append(row)
        return out
    raise ValueError(fmt)


_IDS_CACHE: dict = {}


def shard_ids(path: Path, fmt: str, comp: str, attrs: list[dict]) -> list[int]:
    """ids stored in a shard file (content-addressed memo: unchanged files are not decoded twice)."""
    try:
        key = (hashlib.sha256(Path(path).read_bytes()).hexdigest(), fmt, comp, json.dumps(attrs, sort_keys=True, default=str))
    except OSError:
        key = None
    if key is not None and key in _IDS_CACHE:
        return list(_IDS_CACHE[key])
    ids = [int(np.asarray(row["id"]).reshape(-1)[0]) for row in decode_shard(path, fmt, comp, attrs)]
    if key is not None:
        if len(_IDS_CACHE) > 5000:
            _IDS_CACHE.clear()
        _IDS_CACHE[key] = tuple(ids)
    return ids


@dataclass
class ShardRec:
    split: str
    path: str                 # relative to the root
    list_path: str            # shards_list.json naming it
    recorded: int
    metadata: dict
    checksums: tuple
    ids: list[int] | None = None
    decode_error: str | None = None


@dataclass
class Audit:
    root: Path
    info: dict = field(default_factory=dict)
    shards: list[ShardRec] = field(default_factory=list)
    lists: list[dict] = field(default_factory=list)
    problems: list[tuple[str, str]] = field(default_factory=list)   # (key, message)
    files_on_disk: set[str] = field(default_factory=set)

    def problem(self, key: str, msg: str) -> None:
        self.problems.append((key, msg))

    def ids(self, split: str) -> list[int]:
        out: list[int] = []
        for shard in self.shards:
            if shard.split == split and shard.ids is not None:
                out.extend(shard.ids)
        return out


def audit(root: Path, decode: bool = True, check_digests: bool = True) -> Audit:
    """Walk dataset_info.json -> shards_list.json trees and verify exactness of the bookkeeping."""
    root = Path(root)
    result = Audit(root=root)
    try:
        info = json.loads((root / "dataset_info.json").read_text(encoding="utf-8"))
    except Exception as exc:  # pylint: disable=broad-exception-caught
        result.problem("description-unreadable", f"dataset_info.json: {exc!r}")
        return result
    result.info = info
    structure = info["dataset_structure"]
    fmt, comp = structure["shard_file_type"], structure["compression"]
    attrs = structure["saved_data_description"]
    algorithms = tuple(structure["hash_checksum_algorithms"])

    for path in root.rglob("*"):
        if path.is_file():
            result.files_on_disk.add(str(path.relative_to(root)))

    listed_shards: dict[str, int] = {}
    listed_lists: dict[str, int] = {}

    def walk(split: str, summary: dict, parent: str) -> tuple[int, int]:
        rel = summary["shard_list_info_file"]["file_path"]
        listed_lists[rel] = listed_lists.get(rel, 0) + 1
        full = root / rel
        if Path(rel).name != "shards_list.json":
            result.problem("list-name", f"{parent} names list {rel}")
        if not full.is_file():
            result.problem("listed-list-missing", f"{parent} names missing list file {rel}")
            return (0, 0)
        raw = full.read_bytes()
        if check_digests:
            want = tuple(summary["shard_list_info_file"].get("hash_checksums", ()))
            got = tuple(digest(raw, a) for a in algorithms)
            if want != got:
                result.problem("list-digest", f"{rel}: recorded {want} != independent {got}")
        try:
            doc = json.loads(raw)
        except Exception as exc:  # pylint: disable=broad-exception-caught
            result.problem("list-unparsable", f"{rel}: {exc!r}")
            return (0, 0)
        if doc.get("relative_path_self") != rel:
            result.problem("list-self-path", f"{rel} says relative_path_self={doc.get('relative_path_self')}")
        total_examples, total_shards = 0, 0
        directory = Path(rel).parent
        for entry in doc.get("shard_files", []):
            files = entry["file_infos"]
            shard_rel = files[0]["file_path"]
            rec = ShardRec(split=split, path=shard_rel, list_path=rel,
                           recorded=entry.get("number_of_examples", 0),
                           metadata=entry.get("custom_metadata", {}),
                           checksums=tuple(files[0].get("hash_checksums", ())))
            listed_shards[shard_rel] = listed_shards.get(shard_rel, 0) + 1
            if Path(shard_rel).parent != directory:
                result.problem("shard-not-in-list-directory", f"{rel} lists {shard_rel}")
            shard_full = root / shard_rel
            if not shard_full.is_file():
                result.problem("listed-shard-missing", f"{rel} lists missing file {shard_rel}")
            else:
                if check_digests:
                    got = tuple(digest(shard_full.read_bytes(), a) for a in algorithms)
                    if got != rec.checksums:
                        result.problem("shard-digest", f"{shard_rel}: recorded {rec.checksums} != {got}")
                if decode:
                    try:
                        rec.ids = shard_ids(shard_full, fmt, comp, attrs)
                    except Exception as exc:  # pylint: disable=broad-exception-caught
                        rec.decode_error = repr(exc)[:300]
                        result.problem("shard-undecodable", f"{shard_rel}: {rec.decode_error}")
                    if rec.ids is not None and len(rec.ids) != rec.recorded:
                        result.problem("shard-count", f"{shard_rel}: recorded {rec.recorded} examples, "
                                                      f"file holds {len(rec.ids)}")
            result.shards.append(rec)
            total_examples += rec.recorded
            total_shards += 1
        for child in doc.get("children_shard_lists", []):
            child_rel = child["shard_list_info_file"]["file_path"]
            if Path(child_rel).parent.parent != directory:
                result.problem("child-not-in-subdirectory", f"{rel} has child {child_rel}")
            n_ex, n_sh = walk(split, child, rel)
            if n_ex != child.get("number_of_examples", 0):
                result.problem("child-summary-examples",
                               f"{rel} records {child.get('number_of_examples', 0)} examples for "
                               f"{child_rel}, true {n_ex}")
            if n_sh != child.get("number_of_shards", 0):
                result.problem("child-summary-shards",
                               f"{rel} records {child.get('number_of_shards', 0)} shards for "
                               f"{child_rel}, true {n_sh}")
            total_examples += n_ex
            total_shards += n_sh
        if doc.get("number_of_examples", 0) != total_examples:
            result.problem("list-total", f"{rel}: number_of_examples={doc.get('number_of_examples', 0)}, "
                                         f"sum over shards and children={total_examples}")
        result.lists.append({"path": rel, "split": split, "examples": total_examples, "shards": total_shards})
        return (total_examples, total_shards)

    for split, summary in info.get("splits", {}).items():
        rel = summary["shard_list_info_file"]["file_path"]
        if Path(rel) != Path(split) / "shards_list.json":
            result.problem("split-list-path", f"split {split} points to {rel}")
        n_ex, n_sh = walk(split, summary, "dataset_info.json")
        if n_ex != summary.get("number_of_examples", 0):
            result.problem("split-examples", f"split {split}: recorded {summary.get('number_of_examples', 0)} "
                                             f"examples, true {n_ex}")
        if n_sh != summary.get("number_of_shards", 0):
            result.problem("split-shards", f"split {split}: recorded {summary.get('number_of_shards', 0)} "
                                           f"shards, true {n_sh}")

    for rel, count in listed_shards.items():
        if count > 1:
            result.problem("shard-listed-twice", f"{rel} is listed {count} times")
    for rel, count in listed_lists.items():
        if count > 1:
            result.problem("list-listed-twice", f"{rel} is referenced {count} times")
    for rel in sorted(result.files_on_disk):
        name = Path(rel).name
        if rel == "dataset_info.json" or name.startswith("update_"):
            continue
        if name == "shards_list.json":
            if rel not in listed_lists:
                result.problem("list-unlisted", f"{rel} exists but is not reachable from the description")
        elif rel not in listed_shards:
            result.problem("shard-unlisted", f"{rel} exists but is not listed")
    return result


def tree_digest(root: Path) -> dict[str, str]:
    """path -> sha256 of every file under root (for 'changed nothing' comparisons)."""
    out = {}
    for path in sorted(Path(root).rglob("*")):
        if path.is_file():
            out[str(path.relative_to(root))] = hashlib.sha256(path.read_bytes()).hexdigest()
        elif path.is_dir():
            out[str(path.relative_to(root)) + "/"] = "dir"
    return out
