"""Worker process: imports sedpack (+TensorFlow) once, then executes case descriptions.

Protocol: JSON lines on stdin ({"case": {...}}), JSON lines on the original stdout
({"ready": true} once, then one {"res": ...} or {"error": ..., "sedpack_frame": bool} per case).
File descriptor 1 is redirected to stderr (the parent's log file) so that prints from TensorFlow, Rust
or the code under test can never corrupt the protocol.
"""
from __future__ import annotations

import faulthandler
import importlib
import json
import os
import signal
import sys
import traceback
import warnings


def _has_sedpack_frame(exc: BaseException) -> bool:
    seen = set()
    while exc is not None and id(exc) not in seen:
        seen.add(id(exc))
        for frame, _ in traceback.walk_tb(exc.__traceback__):
            filename = frame.f_code.co_filename
            if "/sedpack/" in filename and "/rtmon/" not in filename:
                return True
        exc = exc.__cause__ or exc.__context__
    return False


def main() -> None:
    module_name = sys.argv[1]
    channel = os.fdopen(os.dup(1), "w", buffering=1)
    os.dup2(2, 1)
    sys.stdout = sys.stderr
    faulthandler.enable(file=sys.stderr)
    faulthandler.register(signal.SIGUSR1, all_threads=True, file=sys.stderr)
    warnings.filterwarnings("ignore")
    os.environ.setdefault("TF_CPP_MIN_LOG_LEVEL", "3")

    from rtmon import common  # pylint: disable=import-outside-toplevel
    module = importlib.import_module(f"rtmon.props.{module_name}")
    if getattr(module, "NEEDS_DEPS", False):
        common.ensure_deps()
    if getattr(module, "NEEDS_RUST", False):
        from rtmon import rustbuild  # pylint: disable=import-outside-toplevel
        rustbuild.load_built_extension()
    if hasattr(module, "worker_init"):
        module.worker_init()
    if getattr(module, "NEEDS_SEDPACK", True):
        common.assert_sedpack_is_working_tree()
    channel.write(json.dumps({"ready": True}) + "\n")

    for line in sys.stdin:
        line = line.strip()
        if not line:
            continue
        msg = json.loads(line)
        case = msg["case"]
        try:
            res = module.run_case(case)
            out = {"res": res}
        except BaseException as exc:  # pylint: disable=broad-exception-caught
            if isinstance(exc, KeyboardInterrupt):
                raise
            out = {"error": "".join(traceback.format_exception(exc))[-4000:],
                   "etype": type(exc).__name__,
                   "sedpack_frame": _has_sedpack_frame(exc)}
        channel.write(json.dumps(out, default=str) + "\n")
    os._exit(0)  # do not wait for stray non-daemon threads of the code under test


if __name__ == "__main__":
    main()
