"""Self-identifying, self-verifying examples and dataset construction helpers.

Every example carries an attribute `id` (int64 scalar) packing (split, session, writer, sequence) —
unique in a whole history — and a payload `x` (float32, shape (3,)) that is a pure function of the id.
A reader result therefore identifies the write it came from; a torn, mixed-up or foreign example is
detected by recomputing the payload.
"""
from __future__ import annotations

from pathlib import Path
from typing import Any, Iterable

import numpy as np

SPLITS = ("train", "test", "holdout")
FORMATS = ("fb", "npz", "tfrec")
COMPRESSIONS = {
    "fb": ["", "BZ2", "GZIP", "LZMA", "LZ4", "ZLIB", "ZSTD"],
    "npz": ["", "ZIP"],
    "tfrec": ["", "GZIP", "ZLIB"],
}
RUST_COMPRESSIONS = ["", "LZ4", "GZIP", "ZLIB"]

SEQ_BITS = 20


def make_id(split: str | int, session: int, writer: int, seq: int) -> int:
    split_idx = split if isinstance(split, int) else SPLITS.index(split)
    assert 0 <= seq < (1 << SEQ_BITS) and 0 <= writer < 16 and 0 <= session < 256
    return (((split_idx * 256 + session) * 16 + writer) << SEQ_BITS) + seq


def split_id(example_id: int) -> tuple[str, int, int, int]:
    seq = example_id & ((1 << SEQ_BITS) - 1)
    rest = example_id >> SEQ_BITS
    writer = rest % 16
    rest //= 16
    session = rest % 256
    split_idx = rest // 256
    return (SPLITS[split_idx] if 0 <= split_idx < 3 else f"?{split_idx}", session, writer, seq)


def payload(example_id: int) -> np.ndarray:
    """Three float32 values, exactly representable (< 2**24), derived from the id."""
    i = int(example_id)
    return np.array([(i * 2654435761) % (1 << 24), ((i >> 3) * 40503 + 7) % (1 << 24), i % 1000],
                    dtype=np.float32)


def example(example_id: int) -> dict[str, Any]:
    return {"id": np.int64(example_id), "x": payload(example_id)}


def std_attributes():
    from sedpack.io.metadata import Attribute  # pylint: disable=import-outside-toplevel
    return [Attribute(name="id", dtype="int64", shape=()),
            Attribute(name="x", dtype="float32", shape=(3,))]


def structure(fmt: str, comp: str, eps: int, attrs=None, hashes: Iterable[str] = ("sha256",)):
    from sedpack.io.metadata import DatasetStructure  # pylint: disable=import-outside-toplevel
    return DatasetStructure(saved_data_description=attrs or std_attributes(), compression=comp,
                            examples_per_shard=eps, shard_file_type=fmt,
                            hash_checksum_algorithms=tuple(hashes))


def create(root: Path, fmt: str, comp: str, eps: int, attrs=None, hashes=("sha256",), description="rtmon"):
    from sedpack.io import Dataset, Metadata  # pylint: disable=import-outside-toplevel
    return Dataset.create(root, Metadata(description=description),
                          structure(fmt, comp, eps, attrs, hashes))


def ids_of(examples: Iterable[dict], skip_payload: set | None = None) -> tuple[list[int], list[str]]:
    """Extract ids and verify payloads.  Returns (ids, problems).  `skip_payload`: ids whose payload was
    deliberately written differently (invalid-but-accepted writes)."""
    ids, problems = [], []
    skip_payload = skip_payload or set()
    for ex in examples:
        try:
            ident = int(np.asarray(ex["id"]).reshape(()))
        except Exception as exc:  # pylint: disable=broad-exception-caught
            problems.append(f"example without usable id: {exc!r}")
            continue
        ids.append(ident)
        if ident in skip_payload:
            continue
        x = np.asarray(ex.get("x"))
        want = payload(ident)
        try:
            same = x.shape == want.shape and x.astype(np.float32).tobytes() == want.tobytes()
        except (ValueError, TypeError):
            same = False
        if not same:
            if len(problems) < 5:
                problems.append(f"payload of id {ident} is {x!r}, expected {want!r} (torn or mixed-up example)")
    return ids, problems


def write_simple(dataset, plan: dict[str, list[int]], interleave_seed: int | None = None,
                 custom_metadata: dict | None = None) -> None:
    """One root-filler session writing the given ids per split (optionally interleaving splits)."""
    order: list[tuple[str, int]] = []
    if interleave_seed is None:
        for split, ids in plan.items():
            order.extend((split, i) for i in ids)
    else:
        rng = np.random.default_rng(interleave_seed)
        cursors = {s: 0 for s in plan}
        remaining = [s for s in plan for _ in plan[s]]
        rng.shuffle(remaining)
        for split in remaining:
            order.append((split, plan[split][cursors[split]]))
            cursors[split] += 1
    with dataset.filler() as filler:
        for split, ident in order:
            if custom_metadata is not None:
                filler.write_example(values=example(ident), split=split, custom_metadata=custom_metadata)
            else:
                filler.write_example(values=example(ident), split=split)
