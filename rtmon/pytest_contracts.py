"""pytest plugin: run google/sedpack's own test-suite with the rtmon contracts attached.

    pytest -p rtmon.pytest_contracts ...      (RTMON_CONTRACTS_OUT=<dir> receives one JSON per process)

A contract that fires there is either too strict or a defect the tests do not assert; evaluation counts
show which contracts the suite reaches at all.
"""
from __future__ import annotations

import json
import os
from pathlib import Path


def pytest_configure(config):  # pylint: disable=unused-argument
    from rtmon.monitors import contracts
    contracts.attach()


def pytest_sessionfinish(session, exitstatus):  # pylint: disable=unused-argument
    from rtmon.monitors import contracts
    out = os.environ.get("RTMON_CONTRACTS_OUT")
    if not out:
        return
    evals, failures = contracts.snapshot()
    Path(out).mkdir(parents=True, exist_ok=True)
    (Path(out) / f"contracts-{os.getpid()}.json").write_text(json.dumps({"evals": evals, "failures": failures}))
